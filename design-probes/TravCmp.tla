---- MODULE TravCmp ----
\* THROWAWAY fidelity probe: chain r -> i -> a -> b -> l with flat leaf f; deterministic environment; logs events
EXTENDS Naturals, Sequences, FiniteSets, TLC
CONSTANTS W, WOrder, K, TICK, DUR, InitPool
Tests == {"r", "f", "l", "b", "a", "i"}
Flat == {"r", "f"}
Stateful == {"a", "b", "i"}
Setup == [t \in Tests |-> CASE t = "r" -> {} [] t = "f" -> {"r"} [] t = "l" -> {"f", "b"} [] t = "b" -> {"a"} [] t = "a" -> {"i"} [] t = "i" -> {"r"}]
Children == [t \in Tests |-> {c \in Tests : t \in Setup[c]}]
Sets == [t \in Tests |-> CASE t = "a" -> {"sa"} [] t = "b" -> {"sb"} [] t = "i" -> {"si"} [] OTHER -> {}]
Gets == [t \in Tests |-> CASE t = "a" -> {"si"} [] t = "b" -> {"sa"} [] t = "l" -> {"sb"} [] OTHER -> {}]
Prio == [t \in Tests |-> CASE t = "r" -> 0 [] t = "f" -> 1 [] t = "l" -> 2 [] t = "b" -> 3 [] t = "a" -> 4 [] t = "i" -> 5]
None == "none"

VARIABLES pc, active, startq, wake, path, cont, pbs, pbc, ds, dc, started, finished, results, occAt, occWait, conc, pool, log
vars == <<pc, active, startq, wake, path, cont, pbs, pbc, ds, dc, started, finished, results, occAt, occWait, conc, pool, log>>

RECURSIVE SumSet(_, _)
SumSet(f, S) == IF S = {} THEN 0 ELSE LET x == CHOOSE y \in S : TRUE IN f[x] + SumSet(f, S \ {x})
Total(reg, t) == LET pairs == Tests \X W
                     g == [p \in pairs |-> reg[t][p[1]][p[2]]]
                 IN SumSet(g, pairs)
ZeroReg == [t \in Tests |-> [x \in Tests |-> [w \in W |-> 0]]]
Bump(reg, t, x, w) == [reg EXCEPT ![t][x][w] = @ + 1]
SetupReady(t, w) == \A p \in Setup[t] : ds[t][p][w] > 0
CleanupReadyWith(dcx, t, w) == \A c \in Children[t] : dcx[t][c][w] > 0
CleanupReady(t, w) == CleanupReadyWith(dc, t, w)
Occupied(t, w) == t \notin Flat /\ Cardinality({v \in W : started[t][v]}) >= conc[t][w]
Less(k1, k2) == \/ k1[1] < k2[1]
                \/ k1[1] = k2[1] /\ k1[2] < k2[2]
                \/ k1[1] = k2[1] /\ k1[2] = k2[2] /\ k1[3] < k2[3]
FlatFlag(t) == IF t \in Flat THEN 0 ELSE 1
PickParent(t, w) == LET C == {p \in Setup[t] : ds[t][p][w] = 0}
                        key(p) == <<FlatFlag(p), Total(pbc, p), Prio[p]>>
                    IN CHOOSE p \in C : \A q \in C \ {p} : Less(key(p), key(q))
PickChildWith(pbsx, dcx, t, w) == LET C == {c \in Children[t] : dcx[t][c][w] = 0}
                                      key(c) == <<FlatFlag(c), Total(pbsx, c), Prio[c]>>
                                  IN CHOOSE c \in C : \A q \in C \ {c} : Less(key(c), key(q))

Init == /\ pc = [w \in W |-> "new"] /\ active = None /\ startq = WOrder
        /\ wake = [w \in W |-> 0] /\ path = [w \in W |-> <<"r">>] /\ cont = [w \in W |-> None]
        /\ pbs = ZeroReg /\ pbc = ZeroReg /\ ds = ZeroReg /\ dc = ZeroReg
        /\ started = [t \in Tests |-> [w \in W |-> FALSE]]
        /\ finished = [t \in Tests |-> {}]
        /\ results = [t \in Tests |-> [w \in W |-> <<>>]]
        /\ occAt = [w \in W |-> {}] /\ occWait = [w \in W |-> 0]
        /\ conc = [t \in Tests |-> [w \in W |-> 1]]
        /\ pool = InitPool /\ log = <<>>

StartNext == /\ active = None /\ startq # <<>>
             /\ active' = Head(startq) /\ startq' = Tail(startq)
             /\ pc' = [pc EXCEPT ![Head(startq)] = "loop"]
             /\ UNCHANGED <<wake, path, cont, pbs, pbc, ds, dc, started, finished, results, occAt, occWait, conc, pool, log>>
Last(s) == s[Len(s)]
Prev(s) == s[Len(s) - 1]
Pop(s) == SubSeq(s, 1, Len(s) - 1)

End(w) == /\ active = w /\ pc[w] = "loop" /\ CleanupReady("r", w)
          /\ pc' = [pc EXCEPT ![w] = "done"] /\ active' = None
          /\ log' = Append(log, <<w, "end", "-", "-">>)
          /\ UNCHANGED <<startq, wake, path, cont, pbs, pbc, ds, dc, started, finished, results, occAt, occWait, conc, pool>>

PickFromRoot(w) == /\ active = w /\ pc[w] = "loop" /\ ~CleanupReady("r", w) /\ Len(path[w]) = 1
                   /\ LET c == PickChildWith(pbs, dc, "r", w) IN
                        /\ path' = [path EXCEPT ![w] = Append(@, c)]
                        /\ pbs' = Bump(pbs, c, "r", w)
                        /\ log' = Append(log, <<w, "pickchild", "r", c>>)
                   /\ UNCHANGED <<pc, active, startq, wake, cont, pbc, ds, dc, started, finished, results, occAt, occWait, conc, pool>>

Bounce(w) == /\ active = w /\ pc[w] = "loop" /\ ~CleanupReady("r", w) /\ Len(path[w]) > 1
             /\ LET nx == Last(path[w]) IN
                  /\ Occupied(nx, w)
                  /\ IF nx \in occAt[w]
                       THEN /\ conc' = IF occWait[w] > K THEN [conc EXCEPT ![nx][w] = @ + 1] ELSE conc
                            /\ occWait' = [occWait EXCEPT ![w] = @ + TICK]
                       ELSE /\ conc' = conc /\ occWait' = [occWait EXCEPT ![w] = 0]
                  /\ occAt' = [occAt EXCEPT ![w] = @ \cup {nx}]
                  /\ log' = Append(log, <<w, "bounce", nx, "-">>)
             /\ path' = [path EXCEPT ![w] = <<"r">>]
             /\ pc' = [pc EXCEPT ![w] = "sleep"] /\ wake' = [wake EXCEPT ![w] = TICK] /\ active' = None
             /\ UNCHANGED <<startq, cont, pbs, pbc, ds, dc, started, finished, results, pool>>

MustRun(t, w) == IF t \in Flat THEN FALSE
                 ELSE IF t \in Stateful
                      THEN finished[t] = {} /\ ~(Sets[t] \subseteq (pool[w] \cup pool["shared"]))
                      ELSE \A v \in W : results[t][v] = <<>>

\* effects after traverse_node finished for t; lg = log so far in this step
PostTraverse(w, t, dir, lg) ==
    IF dir = "up"
    THEN /\ ds' = Bump(ds, Prev(path[w]), t, w)
         /\ path' = [path EXCEPT ![w] = Pop(@)]
         /\ dc' = dc /\ pbs' = pbs
         /\ log' = Append(lg, <<w, "dropparent", Prev(path[w]), t>>)
    ELSE IF CleanupReady(t, w)
         THEN /\ dc' = [x \in Tests |-> IF x \in Setup[t] THEN [dc[x] EXCEPT ![t][w] = @ + 1] ELSE dc[x]]
              /\ path' = [path EXCEPT ![w] = Pop(@)]
              /\ ds' = ds /\ pbs' = pbs
              /\ log' = Append(lg, <<w, "reverse", t, "-">>)
         ELSE LET c == PickChildWith(pbs, dc, t, w) IN
              /\ path' = [path EXCEPT ![w] = Append(@, c)]
              /\ pbs' = Bump(pbs, c, t, w)
              /\ ds' = ds /\ dc' = dc
              /\ log' = Append(lg, <<w, "pickchild", t, c>>)

Step(w) == /\ active = w /\ pc[w] = "loop" /\ ~CleanupReady("r", w) /\ Len(path[w]) > 1
           /\ LET nx == Last(path[w])
                  pv == Prev(path[w])
                  dir == IF pv \in Children[nx] THEN "up" ELSE "down" IN
                /\ ~Occupied(nx, w)
                /\ IF ~SetupReady(nx, w)
                   THEN LET p == PickParent(nx, w) IN
                        /\ path' = [path EXCEPT ![w] = Append(@, p)]
                        /\ pbc' = Bump(pbc, p, nx, w)
                        /\ log' = Append(log, <<w, "pickparent", nx, p>>)
                        /\ UNCHANGED <<pc, active, wake, cont, pbs, ds, dc, started, finished, results, pool>>
                   ELSE IF MustRun(nx, w)
                        THEN /\ started' = [started EXCEPT ![nx][w] = TRUE]
                             /\ results' = [results EXCEPT ![nx][w] = Append(@, "UNKNOWN")]
                             /\ pc' = [pc EXCEPT ![w] = "running"] /\ cont' = [cont EXCEPT ![w] = dir]
                             /\ wake' = [wake EXCEPT ![w] = DUR]
                             /\ active' = None
                             /\ log' = Append(log, <<w, "start", nx, "-">>)
                             /\ UNCHANGED <<path, pbs, pbc, ds, dc, finished, pool>>
                        ELSE /\ finished' = [finished EXCEPT ![nx] = @ \cup {w}]
                             /\ PostTraverse(w, nx, dir, Append(log, <<w, "skip", nx, "-">>))
                             /\ UNCHANGED <<pc, active, wake, cont, pbc, started, results, pool>>
           /\ UNCHANGED <<startq, occAt, occWait, conc>>

RunEnd(w) == /\ active = w /\ pc[w] = "ended"
             /\ LET nx == Last(path[w]) IN
                  /\ results' = [results EXCEPT ![nx][w] = [i \in 1..Len(@) |-> IF i = Len(@) THEN "PASS" ELSE @[i]]]
                  /\ pool' = [pool EXCEPT ![w] = @ \cup Sets[nx]]
                  /\ started' = [started EXCEPT ![nx][w] = FALSE]
                  /\ finished' = [finished EXCEPT ![nx] = @ \cup {w}]
                  /\ PostTraverse(w, nx, cont[w], Append(log, <<w, "endrun", nx, "-">>))
             /\ pc' = [pc EXCEPT ![w] = "loop"] /\ cont' = [cont EXCEPT ![w] = None]
             /\ UNCHANGED <<active, startq, wake, pbc, occAt, occWait, conc>>

Waiting == {w \in W : pc[w] \in {"sleep", "running"}}
Elapse == /\ active = None /\ startq = <<>> /\ Waiting # {} /\ \A w \in Waiting : wake[w] > 0
          /\ wake' = [w \in W |-> IF w \in Waiting THEN wake[w] - 1 ELSE wake[w]]
          /\ UNCHANGED <<pc, active, startq, path, cont, pbs, pbc, ds, dc, started, finished, results, occAt, occWait, conc, pool, log>>
Wake(w) == /\ active = None /\ startq = <<>> /\ w \in Waiting /\ wake[w] = 0
           /\ active' = w
           /\ pc' = [pc EXCEPT ![w] = IF pc[w] = "sleep" THEN "loop" ELSE "ended"]
           /\ UNCHANGED <<startq, wake, path, cont, pbs, pbc, ds, dc, started, finished, results, occAt, occWait, conc, pool, log>>

Next == StartNext \/ Elapse \/ \E w \in W : End(w) \/ PickFromRoot(w) \/ Bounce(w) \/ Step(w) \/ RunEnd(w) \/ Wake(w)
Spec == Init /\ [][Next]_vars
AllDone == \A w \in W : pc[w] = "done"
\* "violated" at the end so that TLC prints the final log
NotDone == ~AllDone
====
