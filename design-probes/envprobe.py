"""throwaway store-aware environment for probes"""
import sys, time, os, asyncio, random, re
sys.path.insert(0, "/repo/selftests/isolation")
import unittest_importer
import logging; logging.disable(logging.CRITICAL)
from unittest import mock
from aexpect.exceptions import ShellCmdError
from avocado_i2n.cartgraph import *
from avocado_i2n.cartgraph import node as nodemod
from avocado_i2n.plugins.runner import TestRunner

class VLoop(asyncio.SelectorEventLoop):
    def __init__(self):
        super().__init__(); self._vt = 0.0
    def time(self): return self._vt
    def _run_once(self):
        if not self._ready and self._scheduled:
            when = self._scheduled[0]._when
            if when > self._vt: self._vt = when
        orig = self._selector.select
        self._selector.select = lambda timeout=None: []
        try: super()._run_once()
        finally: self._selector.select = orig

class Env:
    def __init__(self, store=None, status=lambda name, k: "PASS", dur=lambda name, k: 1.0):
        self.store = store or {}          # loc -> set((objkey, state))
        self.events = []
        self.status, self.dur = status, dur
        self.counts = {}
        self.door_action = None; self.door_params = None
        self.current_door_worker = None
    def pool(self, loc): return self.store.setdefault(loc, set())
    # ---- door
    def set_subcontrol_parameter(self, _, __, do): self.door_action = do; return "x"
    def set_subcontrol_parameter_dict(self, _, __, p): self.door_params = p; return "x"
    def run_subcontrol(self, session, path):
        p, do, w = self.door_params, self.door_action, session.wid
        if do == "check":
            req = [(k[len("check_state_"):], v) for k, v in p.items() if k.startswith("check_state_")]
            ok = all((o, s) in self.pool(w) or (o, s) in self.pool("shared") for o, s in req)
            self.events.append(("scan", w, req, ok))
            if not ok: raise ShellCmdError("cmd", 1, "AssertionError")
        elif do == "unset":
            req = [(k[len("unset_state_"):], v) for k, v in p.items() if k.startswith("unset_state_")]
            self.events.append(("unset", w, req))
            for o, s in req: self.pool(w).discard((o, s))
        else:
            self.events.append((do, w))
    # ---- task
    def states_of(self, node, do):
        out = []
        for o in node.objects:
            if o.key == "nets": continue
            op = o.object_typed_params(node.params)
            s = op.get(f"{do}_state")
            if s: out.append((f"{o.key}_{o.long_suffix}", s, op.get("get_location", ""), o))
        return out
    async def run_test_task(self, runner, node):
        w = node.started_worker.id; name = node.params["name"]; short = re.sub(r"\.vms\..*", "", name)
        k = self.counts[name] = self.counts.get(name, 0) + 1
        missing = []
        for okey, s, loc, o in self.states_of(node, "get"):
            if s in ("root", "0root", "boot") or o.is_permanent(): continue
            srcs = loc.split()
            avail = (okey, s) in self.pool(w)
            for src in srcs:
                wid, path = src.split(":")
                avail |= (okey, s) in self.pool(wid if wid else "shared")
            if not avail: missing.append((okey, s, loc))
        st = self.status(short, k)
        self.events.append(("start", w, short, node.id_test.uid, asyncio.get_event_loop().time(), missing))
        await asyncio.sleep(self.dur(short, k))
        if st in ("PASS", "WARN"):
            for okey, s, loc, o in self.states_of(node, "set"):
                self.pool(w).add((okey, s))
        self.events.append(("end", w, short, st, asyncio.get_event_loop().time()))
        if st is not None:
            tid = type("M", (), {"uid": node.id_test.uid, "name": name})()
            runner.job.result.tests.append({"name": tid, "status": st, "time_elapsed": 1, "logdir": "."})

def traverse(graph, env, params):
    runner = TestRunner(); job = mock.MagicMock(); job.result = mock.MagicMock(); job.result.tests=[]; job.config={}; runner.job=job
    graph.runner = runner
    def get_session(self):
        s = mock.MagicMock(); s.wid = self.id; return s
    async def rtt(self, node): await env.run_test_task(self, node)
    with mock.patch.object(nodemod, "door", env), mock.patch.object(TestRunner, "run_test_task", rtt), \
         mock.patch.object(TestWorker, "get_session", get_session):
        loop = VLoop(); asyncio.set_event_loop(loop)
        ws = sorted(graph.workers.values(), key=lambda x: x.params["name"])
        loop.run_until_complete(asyncio.gather(*[graph.traverse_object_trees(w, params) for w in ws]))
    return runner
VM_STRS = {"vm1": "only CentOS\n", "vm2": "only Win10\n", "vm3": "only Ubuntu\n"}
