import sys, time
sys.path.insert(0, "/repo/selftests/isolation")
import unittest_importer
import logging; logging.disable(logging.CRITICAL)
from avocado_i2n import cmd_parser
from avocado_i2n.cartgraph import TestGraph
def run(args):
    cfg = {"params": args}
    t0 = time.time()
    try:
        cmd_parser.params_from_cmd(cfg)
        names = [n.params["name"] for n in TestGraph.parse_flat_nodes(cfg["tests_str"], cfg["param_dict"])]
        return {"tests_str": cfg["tests_str"], "vm_strs": cfg["vm_strs"], "param_dict": cfg["param_dict"], "n": len(names), "first": names[:2], "t": round(time.time()-t0,2)}
    except Exception as e:
        return {"EXC": type(e).__name__ + ": " + str(e)[:90], "t": round(time.time()-t0,2)}
for a in [["only=tutorial1"], ["only=normal", "only=tutorial1"], ["only=normal..tutorial1"], ["only=tutorial2", "no=files"], ["only=tutorial1", "file_contents=x,y"],
          ["only_vm1=Fedora", "only=tutorial1"], ["only_vm2="], ["vms=vm9"], ["badarg"], ["only_vm7=x"], ["nets=net1,net2", "only_nets=cluster1"], ["only_nets=cluster1"], ["only=leaves", "only=tutorial_gui"]]:
    print(a, "->", run(a))
