---- MODULE MCCmp ----
EXTENDS TravCmp
MCOrder == <<"w1", "w2">>
MCPool == [x \in {"w1", "w2", "shared"} |-> IF x = "shared" THEN {"si"} ELSE {}]
====
