from envprobe import *
graph = TestGraph.parse_object_trees(None, "only normal\nonly tutorial1\n", "", VM_STRS, {"nets": "net1 net2"})
store = {"shared": {("images_image1_vm1", "install"), ("images_image1_vm1", "customize")}}
# on_customize never reports a result
env = Env(store, status=lambda n,k: None if "on_customize" in n else "PASS")
try:
    r = traverse(graph, env, {"test_timeout": 100})
    print("terminated; all_results_ok:", end=" ")
    try: print(r.all_results_ok())
    except Exception as e: print("EXC", repr(e))
except Exception as e:
    print("traversal EXC", repr(e)[:300])
for e in env.events:
    if e[0] in ("start","end"): print(e[:5])
for n in graph.nodes:
    if not n.is_flat(): print(re.sub(r"\.vms\..*", "", n.params["name"]), n.params["nets"], [r["status"] for r in n.results], "finished:", n.finished_worker.id if n.finished_worker else None)
