from envprobe import *
from avocado_i2n.cartgraph import graph as graphmod
LOG = []
def letter(n):
    if n.is_shared_root(): return "r"
    if n.is_flat(): return "f"
    name = n.params["name"]
    if "tutorial1" in name: return "l"
    if "on_customize" in name: return "b"
    if ".customize." in name: return "a"
    if "original" in name: return "i"
    return "?"
W = {"net1": "w1", "net2": "w2"}
def wrap(cls, name, fn):
    orig = getattr(cls, name); setattr(cls, name, fn(orig))
wrap(TestNode, "pick_child", lambda o: lambda self, worker: (lambda r: (LOG.append((W[worker.id], "pickchild", letter(self), letter(r))), r)[1])(o(self, worker)))
wrap(TestNode, "pick_parent", lambda o: lambda self, worker: (lambda r: (LOG.append((W[worker.id], "pickparent", letter(self), letter(r))), r)[1])(o(self, worker)))
wrap(TestNode, "drop_parent", lambda o: lambda self, node, worker: (LOG.append((W[worker.id], "dropparent", letter(self), letter(node))), o(self, node, worker))[1])
def occ(o):
    def f(self, worker=None):
        r = o(self, worker)
        if r: LOG.append((W[worker.id], "bounce", letter(self), "-"))
        return r
    return f
wrap(TestNode, "is_occupied", occ)
RUNS = [0]
def trav(o):
    async def f(self, node, worker, params):
        before = RUNS[0]
        await o(self, node, worker, params)
        if RUNS[0] == before: LOG.append((W[worker.id], "skip", letter(node), "-"))
    return f
wrap(TestGraph, "traverse_node", trav)
def rev(o):
    async def f(self, node, worker, params):
        LOG.append((W[worker.id], "reverse", letter(node), "-"))
        await o(self, node, worker, params)
    return f
wrap(TestGraph, "reverse_node", rev)
def tot(o):
    async def f(self, worker, params=None):
        await o(self, worker, params)
        LOG.append((W[worker.id], "end", "-", "-"))
    return f
wrap(TestGraph, "traverse_object_trees", tot)

class Env2(Env):
    async def run_test_task(self, runner, node):
        RUNS[0] += 1
        w = W[node.started_worker.id]
        LOG.append((w, "start", letter(node), "-"))
        await Env.run_test_task(self, runner, node)
        LOG.append((w, "endrun", letter(node), "-"))

graph = TestGraph(); graph.restrs.update(VM_STRS)
flat = TestGraph.parse_flat_nodes("normal..tutorial1")
for n in flat: n.update_restrs(VM_STRS)
graph.new_nodes(flat); graph.parse_shared_root_from_object_roots(); graph.new_workers(TestGraph.parse_workers({"nets": "net1 net2"}))
env = Env2({"shared": {("images_image1_vm1", "install")}}, dur=lambda n,k: 0.25)
traverse(graph, env, {"test_timeout": 100})
open("real_events.txt", "w").write("\n".join(" ".join(e) for e in LOG) + "\n")
print(len(LOG), "real events")
