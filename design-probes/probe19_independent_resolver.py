"""THROWAWAY probe (C07): independent dependency resolver vs the real parsed graph.

Resolver uses only virttest.cartesian_config.Parser on the suite's config files plus a 10-line
re-implementation of the object-suffix parameter lookup; no code from avocado_i2n.cartgraph / params_parser.
"""
import sys, os, re, time
sys.path.insert(0, "/repo/selftests/isolation")
import unittest_importer
import logging; logging.disable(logging.CRITICAL)
from virttest import cartesian_config

CFG = "/repo/tp_folder/configs"
HOME = os.environ["HOME"]
VM_VARIANT = {"vm1": "CentOS", "vm2": "Win10", "vm3": "Ubuntu"}
NET = "net1"

def dicts(test_restr, vms):
    """all test variant dictionaries for a restriction, composed for the given vms on NET (own composition order)"""
    p = cartesian_config.Parser()
    p.parse_string("hostname = avocado\nsuite_path = /repo/tp_folder\ntest_pre_hook = x\n")
    p.parse_file(f"{CFG}/nets.cfg")
    p.parse_string(f"{NET}:\n    only nets\njoin {NET}\n")
    p.parse_file(f"{CFG}/vms.cfg")
    p.parse_string("".join(f"{vm}:\n    only {VM_VARIANT[vm]}\n" for vm in vms) + "join " + " ".join(vms) + "\n")
    p.parse_file(f"{HOME}/avocado_overwrite_vms.cfg")
    p.parse_file(f"{CFG}/sets.cfg")
    p.parse_file(f"{HOME}/avocado_overwrite_tests.cfg")
    p.parse_string(f"only {test_restr}\n")
    p.parse_string(f"nets = {NET}\n")
    return list(p.get_dicts())

def strip(d, suffix):
    """own re-implementation of per-object parameter views: keys ending in _<suffix> override their suffixless form"""
    out = dict(d)
    for k in list(d):
        if k.endswith("_" + suffix):
            out[k[: -len(suffix) - 1]] = d[k]
    return out

def view(d, obj):
    typ, vm, img = obj
    v = strip(d, vm)
    if img: v = strip(v, img)
    return strip(v, typ)

def objects_of(d):
    objs = []
    for vm in d.get("vms", "").split():
        imgs = strip(d, vm).get("images") or "image1"
        for img in imgs.split():
            objs.append(("images", vm, img))
        objs.append(("vms", vm, None))
    return objs

def state(d, do, obj):
    v = view(d, obj)
    return v.get("get") if do == "get" else v.get(f"{do}_state")

def short(name):  # flat variant part of a composed name
    return re.sub(r"\.vms\..*", "", name)

def resolve(test_restr, vms, seen, edges):
    for d in dicts(test_restr, vms):
        me = (short(d["name"]), tuple(vms))
        if me in seen: continue
        seen.add(me)
        for obj in objects_of(d):
            get = state(d, "get", obj)
            if not get: continue
            typ, vm, img = obj
            gs = view(d, obj).get("get_state")
            # producers: variants of all..<get> composed for the object's vm only, that set exactly that state
            for pd in dicts("all.." + get, [vm]):
                ps = view(pd, obj).get("set_state")
                if ps and (gs in (ps, None, "") or gs == ps):
                    edges.add((me[0], short(pd["name"]), f"{typ}:{vm}"))
                    resolve(short(pd["name"]).replace("all.", "all..", 1) if False else "all.." + short(pd["name"]).split(".", 1)[1], [vm], seen, edges)

t0 = time.time()
seen, edges = set(), set()
for d in dicts("normal..tutorial1", ["vm1"]):
    pass
resolve("normal..tutorial1", ["vm1"], seen, edges)
resolve("normal..tutorial3", ["vm1", "vm2"], seen, edges)
print("independent resolver:", len(edges), "edges in", round(time.time() - t0, 1), "s")

from avocado_i2n.cartgraph import TestGraph
g = TestGraph.parse_object_trees(None, "only normal\nonly tutorial1,tutorial3\n", "", {k: f"only {v}\n" for k, v in VM_VARIANT.items()}, {"nets": NET})
real = set()
for n in g.nodes:
    if n.is_flat(): continue
    for p, objs in n.setup_nodes.items():
        if p.is_flat(): continue
        for o in objs:
            if o.key == "nets": continue
            vm = o.suffix if o.key == "vms" else o.composites[0].suffix
            real.add((short(n.params["name"]), short(p.params["name"]), f"{o.key}:{vm}"))
print("real graph:", len(real), "edges")
print("only resolver:", sorted(edges - real))
print("only real    :", sorted(real - edges))
