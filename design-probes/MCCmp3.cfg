SPECIFICATION Spec
CONSTANTS
  W = {"w1", "w2", "w3"}
  WOrder <- MCOrder
  K = 1000
  TICK = 2
  DUR = 5
  InitPool <- MCPool
INVARIANT NotDone
CHECK_DEADLOCK FALSE
