---- MODULE MCCmp3 ----
EXTENDS TravCmp
MCOrder == <<"w1", "w2", "w3">>
MCPool == [x \in {"w1", "w2", "w3", "shared"} |-> IF x = "shared" THEN {"si"} ELSE IF x = "w2" THEN {"sa"} ELSE {}]
====
