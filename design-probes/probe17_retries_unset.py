"""THROWAWAY probe: extract TravGen constants from a real parse, record a real lazy traversal, validate it with TLC.

usage: /venv/bin/python probe17_retries_unset.py <nets> <seed> <max_tries> [stop_status]
"""
import json, subprocess, os
from envprobe import *
from avocado_i2n.cartgraph import graph as graphmod

NETS = sys.argv[1] if len(sys.argv) > 1 else "net1 net2"
SEED = int(sys.argv[2]) if len(sys.argv) > 2 else 0
RESTR_FLAT = "leaves..tutorial_gui"
RESTR_EAGER = "only leaves\nonly tutorial_gui\n"
MAXT = int(sys.argv[3]) if len(sys.argv) > 3 else 1
STOP = sys.argv[4] if len(sys.argv) > 4 else ""
OUT = f"/tmp/probe/tw_{len(NETS.split())}_{SEED}_{MAXT}_{STOP}"
os.makedirs(OUT, exist_ok=True)

def cls_name(node):
    """worker-invariant class key of a node"""
    if node.is_flat():
        return "FLAT:" + node.params["name"]
    return re.sub(r"\.nets\..*$", "", node.params["name"])

# ---------- constants from the eager parse (one worker is enough for classes and edges)
eager = TestGraph.parse_object_trees(None, RESTR_EAGER, "", VM_STRS, {"nets": "net1"})
flats = TestGraph.parse_flat_nodes(RESTR_FLAT)
ids = {}
def tid(key):
    if key not in ids: ids[key] = "t%d" % len(ids)
    return ids[key]
ROOT = tid("FLAT:ROOT")
setup, sets, objroots, stateful, order_key = {ROOT: set()}, {ROOT: set()}, set(), set(), {}
removable, unsetsets = set(), {ROOT: set()}
comp = [n for n in eager.nodes if not n.is_flat()]
for n in comp:
    t = tid(cls_name(n))
    setup[t] = {tid(cls_name(p)) if not p.is_shared_root() else ROOT for p in n.setup_nodes}
    st = set()
    for o in n.objects:
        if o.key == "nets": continue
        s = o.object_typed_params(n.params).get("set_state")
        if s: st.add(f"{o.key}_{o.long_suffix}:{s}")
    sets[t] = st
    us = set()
    for o in n.objects:
        op = o.object_typed_params(n.params)
        if op.get("unset_mode_images", op["unset_mode"])[0] == "f" or op.get("unset_mode_vms", op["unset_mode"])[0] == "f":
            removable.add(t)
        if o.key != "nets" and op.get("set_state") and op.get("unset_mode", "ri")[0] == "f":
            us.add(f"{o.key}_{o.long_suffix}:{op.get('set_state')}")
    unsetsets[t] = us
    if st: stateful.add(t)
    if n.is_object_root(): objroots.add(t)
    order_key[t] = n.long_prefix
flat_ids, closure = set(), {}
for f in flats:
    ft = tid("FLAT:" + f.params["name"]); flat_ids.add(ft); setup[ft] = {ROOT}; sets[ft] = set(); unsetsets[ft] = set()
    order_key[ft] = f.long_prefix
    leaves = [tid(cls_name(n)) for n in comp if n.params["name"].startswith(f.params["name"] + ".vms.")]
    clo, todo = set(), list(leaves)
    while todo:
        x = todo.pop()
        if x in clo or x == ROOT: continue
        clo.add(x); todo.extend(setup[x])
    closure[ft] = clo
    for lf in leaves: setup[lf] = setup[lf] | {ft}
order_key[ROOT] = "0-."
tests = sorted(setup, key=lambda t: int(t[1:]))
# static priority: rank under the code's own comparator
from functools import cmp_to_key
ranked = sorted(tests, key=cmp_to_key(lambda a, b: TestNode.prefix_priority(order_key[a], order_key[b])))
prio = {t: i for i, t in enumerate(ranked)}

# ---------- record a real lazy traversal
LOG = []
CUR = {}
workers_sorted = None
def wid(worker): return "w" + str(WORKER_IDS.index(worker.id) + 1)
def nid(node):
    if node.is_shared_root(): return ROOT
    return ids[cls_name(node)]
class Cap(Exception): pass
def ev(w, a, x="-", y="-", **kw):
    if len(LOG) > 20000: raise Cap()
    LOG.append(dict({"w": w, "a": a, "x": x, "y": y, "u": 0, "s": "-"}, **kw))
def wrap(cls, name, fn): setattr(cls, name, fn(getattr(cls, name)))
wrap(TestNode, "pick_child", lambda o: lambda self, worker: (lambda r: (ev(wid(worker), "pickchild", nid(self), nid(r)), r)[1])(o(self, worker)))
wrap(TestNode, "pick_parent", lambda o: lambda self, worker: (lambda r: (ev(wid(worker), "pickparent", nid(self), nid(r)), r)[1])(o(self, worker)))
wrap(TestNode, "drop_parent", lambda o: lambda self, node, worker: (ev(wid(worker), "dropparent", nid(self), nid(node)), o(self, node, worker))[1])
def occ(o):
    def f(self, worker=None):
        r = o(self, worker)
        if r: ev(wid(worker), "bounce", nid(self))
        return r
    return f
wrap(TestNode, "is_occupied", occ)
RUNS = [0]
def trav(o):
    async def f(self, node, worker, params):
        before = RUNS[0]
        await o(self, node, worker, params)
        CUR["w"], CUR["n"] = worker, node
        if RUNS[0] == before: ev(wid(worker), "skip", nid(node))
    return f
wrap(TestGraph, "traverse_node", trav)
def rev(o):
    async def f(self, node, worker, params):
        ev(wid(worker), "reverse", nid(node))
        await o(self, node, worker, params)
    return f
wrap(TestGraph, "reverse_node", rev)
wrap(TestGraph, "report_progress", lambda o: lambda self: (ev(wid(CUR["w"]), "cready", nid(CUR["n"])), o(self))[1])
def exp(o):
    def f(self, node, net, params=None):
        w = [x for x in self.workers.values() if x.net is net][0]
        ev(wid(w), "expand", nid(node))
        return o(self, node, net, params)
    return f
wrap(TestGraph, "parse_paths_to_object_roots", exp)
def tot(o):
    async def f(self, worker, params=None):
        ev(wid(worker), "begin")
        await o(self, worker, params)
        ev(wid(worker), "end")
    return f
wrap(TestGraph, "traverse_object_trees", tot)

class Env2(Env):
    def run_subcontrol(self, session, path):
        if self.door_action == "unset": ev("w" + str(WORKER_IDS.index(session.wid) + 1), "unset")
        return Env.run_subcontrol(self, session, path)
    async def run_test_task(self, runner, node):
        RUNS[0] += 1
        w = wid(node.started_worker)
        pre = node.prefix.startswith("0") and ".noop." in node.params["name"]
        if pre:
            root_cls = [t for k, t in ids.items() if not k.startswith("FLAT") and ".original." in k and ".vms." + node.params["vms"] + "." in k][0]
            ev(w, "prestart", root_cls)
        else:
            m = re.search(r"r(\d+)$", node.id_test.uid)
            ev(w, "start", nid(node), u=int(m.group(1)) if m else 0)
        await Env.run_test_task(self, runner, node)
        ev(w, "preend" if pre else "endrun", root_cls if pre else nid(node), s=STAT[asyncio.current_task()])

graph = TestGraph(); graph.restrs.update(VM_STRS)
for n in flats: n.update_restrs(VM_STRS)
graph.new_nodes(flats); graph.parse_shared_root_from_object_roots(); graph.new_workers(TestGraph.parse_workers({"nets": NETS}))
WORKER_IDS = [w.id for w in sorted(graph.workers.values(), key=lambda x: x.params["name"])]
rng = random.Random(SEED)
all_states = sorted(set().union(*sets.values()))
locs = ["shared"] + WORKER_IDS
store = {}
for s in all_states:
    if rng.random() < 0.5:
        loc = rng.choice(locs); o, st = s.split(":")
        store.setdefault(loc, set()).add((o, st))
STAT = {}
def status(n, k):
    st = rng.choice(["PASS", "PASS", "PASS", "FAIL", "ERROR", "SKIP"]); STAT[asyncio.current_task()] = st; return st
env = Env2({k: set(v) for k, v in store.items()}, status=status, dur=lambda n, k: rng.choice([0.05, 0.17, 0.33, 1.3, 7.7]))
run_params = {"test_timeout": 100}
if MAXT != 1: run_params["max_tries"] = str(MAXT)
if STOP: run_params["stop_status"] = STOP
try:
    traverse(graph, env, run_params)
except Cap:
    pre = sum(1 for e in LOG[-3000:] if e["a"] == "prestart")
    print(f"nets={NETS!r} seed={SEED} max_tries={MAXT} stop={STOP!r} NON-TERMINATION: >20000 events; prestart events among the last 3000: {pre}")
    sys.exit(0)
# post-process cready -> postpone / drop
merged = []
for e in LOG:
    if e["a"] == "unset":
        assert merged[-1]["a"] == "reverse" and merged[-1]["w"] == e["w"], (merged[-1], e)
        merged[-1]["u"] = 1
    else:
        merged.append(e)
LOG = merged
events = []
for i, e in enumerate(LOG):
    if e["a"] == "cready":
        nxt = LOG[i + 1] if i + 1 < len(LOG) else None
        if nxt and nxt["a"] == "reverse" and nxt["w"] == e["w"] and nxt["x"] == e["x"]:
            continue
        e = dict(e, a="postpone")
    events.append(e)
with open(f"{OUT}/trace.ndjson", "w") as f:
    for e in events: f.write(json.dumps(e) + "\n")

# ---------- generate the MC module and run TLC
W = ["w%d" % (i + 1) for i in range(len(WORKER_IDS))]
def tla_set(xs): return "{" + ", ".join('"%s"' % x for x in sorted(xs)) + "}"
def tla_fun(dom, f): return "[t \\in Tests |-> " + " ".join(("CASE" if i == 0 else "[]") + ' t = "%s" -> %s' % (t, f(t)) for i, t in enumerate(dom)) + "]"
unrestricted = [W[i] for i, k in enumerate(WORKER_IDS) if len(graph.workers[k].restrs) == 0]
poolfun = "[x \\in W \\cup {\"shared\"} |-> " + " ".join(("CASE" if i == 0 else "[]") + ' x = "%s" -> %s' % (x, tla_set({f"{o}:{s}" for o, s in store.get(k, set())})) for i, (x, k) in enumerate(zip(["shared"] + W, ["shared"] + WORKER_IDS))) + "]"
mc = f"""---- MODULE MCGen ----
EXTENDS TravGen2
MCW == {tla_set(W)}
MCTests == {tla_set(tests)}
MCFlatLeaves == {tla_set(flat_ids)}
MCObjRoots == {tla_set(objroots)}
MCStateful == {tla_set(stateful)}
MCSetup == {tla_fun(tests, lambda t: tla_set(setup[t]))}
MCSets == {tla_fun(tests, lambda t: tla_set(sets[t]))}
MCPrio == {tla_fun(tests, lambda t: str(prio[t]))}
MCClosure == [f \\in MCFlatLeaves |-> {" ".join(("CASE" if i == 0 else "[]") + ' f = "%s" -> %s' % (f, tla_set(closure[f])) for i, f in enumerate(sorted(flat_ids)))}]
MCUnrestricted == {tla_set(unrestricted)}
MCPool == {poolfun}
MCRemovable == {tla_set(removable)}
MCUnsetSets == {tla_fun(tests, lambda t: tla_set(unsetsets[t]))}
MCRerun == {{"PASS", "FAIL", "ERROR", "WARN", "SKIP", "CANCEL", "INTERRUPTED", "UNKNOWN"}}
MCStop == {tla_set([STOP.upper()] if STOP else [])}
====
"""
open(f"{OUT}/MCGen.tla", "w").write(mc)
open(f"{OUT}/MCGen.cfg", "w").write(f"""SPECIFICATION Spec
CONSTANTS
  W <- MCW
  Tests <- MCTests
  Root = "{ROOT}"
  FlatLeaves <- MCFlatLeaves
  ObjRoots <- MCObjRoots
  Stateful <- MCStateful
  Setup <- MCSetup
  Sets <- MCSets
  Prio <- MCPrio
  Closure <- MCClosure
  Unrestricted <- MCUnrestricted
  InitPool <- MCPool
  Removable <- MCRemovable
  UnsetSets <- MCUnsetSets
  MaxTries = {MAXT}
  MaxConc = {max(MAXT, 1)}
  RerunSet <- MCRerun
  StopSet <- MCStop
INVARIANT ConcBound
INVARIANT TryBound
POSTCONDITION Accepted
CHECK_DEADLOCK FALSE
""")
import shutil
shutil.copy(os.path.join(os.path.dirname(os.path.abspath(__file__)), "TravGen2.tla"), OUT)
r = subprocess.run(["tlc", "-workers", "1", "-metadir", f"{OUT}/meta", "-noGenerateSpecTE", "-config", "MCGen.cfg", "MCGen.tla"],
                   cwd=OUT, env=dict(os.environ, TRACE_FILE=f"{OUT}/trace.ndjson"), capture_output=True, text=True)
shutil.rmtree(f"{OUT}/meta", ignore_errors=True); open(f"{OUT}/tlc.out","w").write(r.stdout)
out = r.stdout
m = re.search(r"(\d+) states generated, (\d+) distinct states", out)
depth = re.search(r"depth of the complete state graph search is (\d+)", out)
ok = "No error has been found" in out
print(f"nets={NETS!r} seed={SEED} max_tries={MAXT} stop={STOP!r} tests={len(tests)} events={len(events)} runs={RUNS[0]} pool={ {k: sorted(v) for k, v in store.items()} }")
print("TLC:", "ACCEPTED" if ok else "REJECTED", "| states", m.group(1) if m else "?", "| depth", depth.group(1) if depth else "?")
if not ok:
    d = int(depth.group(1)) if depth else 0
    print("first unmatched event index", d, ":", events[d - 1] if 0 < d <= len(events) else None)
    print("context:", events[max(0, d - 6):d + 2])
    print("\n".join(l for l in out.splitlines() if "Error" in l or "rror:" in l)[:1500])
