import sys, time, os
os.environ["HOME"] = "/tmp/probe/home"
sys.path.insert(0, "/repo/selftests/isolation")
import unittest_importer
import logging; logging.disable(logging.CRITICAL)
from avocado.core.settings import settings
from avocado_i2n import params_parser as param
# point the suite path to the trimmed suite
param.custom_configs_dir = lambda: "/tmp/probe/suite/configs"
_orig = settings.as_dict
def as_dict(*a, **k):
    d = _orig(*a, **k); d["i2n.common.suite_path"] = "/tmp/probe/suite"; return d
settings.as_dict = as_dict
from avocado_i2n.cartgraph import *
vm_strs = {"vm1": "only CentOS\n", "vm2": "only Win10\n", "vm3": "only Ubuntu\n"}
t0=time.time()
g = TestGraph.parse_object_trees(None, "only normal\nonly tutorial1,tutorial3\n", "", vm_strs, {"nets": "net1 net2 net3"})
print("trimmed suite eager parse", len(g.nodes), "nodes in", round(time.time()-t0,2), "s")
for n in g.nodes[:6]: print(" ", n.id[:110])
t0=time.time()
g = TestGraph.parse_object_trees(None, "only leaves\n", "", vm_strs, {"nets": "net1 net2"})
print("trimmed suite leaves x2", len(g.nodes), "nodes in", round(time.time()-t0,2), "s")
