from envprobe import *
def proj(graph):
    nodes = {}
    for n in graph.nodes:
        if n.is_flat(): continue
        nodes[n.params["name"]] = sorted((p.params["name"], sorted(o.long_suffix for o in objs)) for p, objs in n.setup_nodes.items() if not p.is_flat())
    return nodes
restr = "normal..tutorial1,normal..tutorial3"
t0 = time.time()
eager = TestGraph.parse_object_trees(None, "only normal\nonly tutorial1,tutorial3\n", "", VM_STRS, {"nets": "net1 net2"})
pe = proj(eager); print("eager", len(pe), round(time.time()-t0,1))
lazy = TestGraph(); lazy.restrs.update(VM_STRS)
flat = TestGraph.parse_flat_nodes(restr)
for n in flat: n.update_restrs(VM_STRS)
lazy.new_nodes(flat); lazy.parse_shared_root_from_object_roots(); lazy.new_workers(TestGraph.parse_workers({"nets": "net1 net2"}))
env = Env({}, dur=lambda n,k: random.uniform(0.5, 30))
random.seed(3)
t0 = time.time(); traverse(lazy, env, {"test_timeout": 100}); pl = proj(lazy); print("lazy", len(pl), round(time.time()-t0,1))
print("only eager:", [re.sub(r"\.vms\..*nets", " @", k) for k in pe if k not in pl])
print("only lazy :", [re.sub(r"\.vms\..*nets", " @", k) for k in pl if k not in pe])
print("edge diffs:", [k for k in pe if k in pl and pe[k] != pl[k]][:3])
print("runs:", sum(1 for e in env.events if e[0]=="start"), "missing-at-start:", [e[2] for e in env.events if e[0]=="start" and e[5]])
