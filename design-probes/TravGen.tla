---- MODULE TravGen ----
\* THROWAWAY probe: generic (data-driven) untimed traversal model used as a TRACE VALIDATOR.
\* Constants come from a generated module (real parsed graph); every action consumes exactly one recorded event.
\* Covers: registers, pick order, lazy expansion (should_parse / unexplored), bounce, run decision with scan,
\* creation pre-step, postponed cleanup, reversal. Not covered: retries, scopes, clones, removable states.
EXTENDS Naturals, Sequences, FiniteSets, TLC, Json, IOUtils
CONSTANTS W, Tests, Root, FlatLeaves, ObjRoots, Stateful, Setup, Sets, Prio, Closure, Unrestricted, InitPool

TraceLog == ndJsonDeserialize(IOEnv.TRACE_FILE)
Flat == FlatLeaves \cup {Root}
Children == [t \in Tests |-> {c \in Tests : t \in Setup[c]}]
None == "none"

VARIABLES pc, path, dir, snap, pbs, pbc, ds, dc, started, finished, results, pool, exists, unrolled, l
vars == <<pc, path, dir, snap, pbs, pbc, ds, dc, started, finished, results, pool, exists, unrolled, l>>

RECURSIVE SumSet(_, _)
SumSet(f, S) == IF S = {} THEN 0 ELSE LET x == CHOOSE y \in S : TRUE IN f[x] + SumSet(f, S \ {x})
Total(reg, t) == LET pairs == Tests \X W
                     g == [p \in pairs |-> reg[t][p[1]][p[2]]]
                 IN SumSet(g, pairs)
ZeroReg == [t \in Tests |-> [x \in Tests |-> [w \in W |-> 0]]]
Bump(reg, t, x, w) == [reg EXCEPT ![t][x][w] = @ + 1]

Relevant(t, w) == t \in Flat \/ exists[t][w]
SetupReady(t, w) == \A p \in Setup[t] : Relevant(p, w) => ds[t][p][w] > 0
CleanupReady(t, w) == \A c \in Children[t] : Relevant(c, w) => dc[t][c][w] > 0
Occupied(t, w) == t \notin Flat /\ \E v \in W : started[t][v]
Less(k1, k2) == \/ k1[1] < k2[1]
                \/ k1[1] = k2[1] /\ k1[2] < k2[2]
                \/ k1[1] = k2[1] /\ k1[2] = k2[2] /\ k1[3] < k2[3]
FlatFlag(t) == IF t \in Flat THEN 0 ELSE 1
ParentCands(t, w) == {p \in Setup[t] : Relevant(p, w) /\ ds[t][p][w] = 0}
ChildCands(t, w) == {c \in Children[t] : Relevant(c, w) /\ dc[t][c][w] = 0}
\* the prefix tie-break is dynamic under lazy parsing (prefixes depend on expansion order): left nondeterministic
BestParents(t, w) == LET C == ParentCands(t, w)
                         key(p) == <<FlatFlag(p), Total(pbc, p), 0>>
                     IN {p \in C : \A q \in C : ~Less(key(q), key(p))}
BestChildren(t, w) == LET C == ChildCands(t, w)
                          key(c) == <<FlatFlag(c), Total(pbs, c), 0>>
                      IN {c \in C : \A q \in C : ~Less(key(q), key(c))}

Involved(t) == {w \in W : \E x \in Tests : pbs[t][x][w] > 0 \/ pbc[t][x][w] > 0}
Unexplored == {f \in FlatLeaves : \A w \in W : ~unrolled[f][w]}
ShouldParse(f, w) == ~\E pw \in Involved(f) : unrolled[f][pw] /\ CleanupReady(f, pw) /\ pw \in Unrestricted
Last(s) == s[Len(s)]
Prev(s) == s[Len(s) - 1]
Pop(s) == SubSeq(s, 1, Len(s) - 1)

CanExpand(w) == /\ Len(path[w]) > 1
                /\ LET nx == Last(path[w]) IN
                     nx \in FlatLeaves /\ ~unrolled[nx][w] /\ (Unexplored # {} \/ ShouldParse(nx, w))

MustRun(t, w) == IF t \in Flat THEN FALSE
                 ELSE IF t \in Stateful
                      THEN (\A v \in W : v \notin finished[t]) /\ ~(Sets[t] \subseteq (pool[w] \cup pool["shared"]))
                      ELSE \A v \in W : results[t][v] = <<>>

Ev(w, a) == l <= Len(TraceLog) /\ TraceLog[l].w = w /\ TraceLog[l].a = a /\ l' = l + 1
EvX(w, a, x) == Ev(w, a) /\ TraceLog[l].x = x
EvXY(w, a, x, y) == EvX(w, a, x) /\ TraceLog[l].y = y

Init == /\ pc = [w \in W |-> "new"] /\ path = [w \in W |-> <<Root>>] /\ dir = [w \in W |-> None]
        /\ snap = [w \in W |-> FALSE]
        /\ pbs = ZeroReg /\ pbc = ZeroReg /\ ds = ZeroReg /\ dc = ZeroReg
        /\ started = [t \in Tests |-> [w \in W |-> FALSE]]
        /\ finished = [t \in Tests |-> {}]
        /\ results = [t \in Tests |-> [w \in W |-> <<>>]]
        /\ pool = InitPool
        /\ exists = [t \in Tests |-> [w \in W |-> FALSE]]
        /\ unrolled = [f \in FlatLeaves |-> [w \in W |-> FALSE]]
        /\ l = 1

Begin(w) == /\ pc[w] = "new" /\ Ev(w, "begin") /\ pc' = [pc EXCEPT ![w] = "loop"]
            /\ UNCHANGED <<path, dir, snap, pbs, pbc, ds, dc, started, finished, results, pool, exists, unrolled>>

End(w) == /\ pc[w] = "loop" /\ CleanupReady(Root, w) /\ path[w] = <<Root>> /\ Ev(w, "end")
          /\ pc' = [pc EXCEPT ![w] = "done"]
          /\ UNCHANGED <<path, dir, snap, pbs, pbc, ds, dc, started, finished, results, pool, exists, unrolled>>

PickFromRoot(w) == /\ pc[w] = "loop" /\ ~CleanupReady(Root, w) /\ Len(path[w]) = 1
                   /\ \E c \in BestChildren(Root, w) :
                        /\ EvXY(w, "pickchild", Root, c)
                        /\ path' = [path EXCEPT ![w] = Append(@, c)]
                        /\ pbs' = Bump(pbs, c, Root, w)
                   /\ UNCHANGED <<pc, dir, snap, pbc, ds, dc, started, finished, results, pool, exists, unrolled>>

Expand(w) == /\ pc[w] = "loop" /\ ~CleanupReady(Root, w) /\ CanExpand(w)
             /\ LET f == Last(path[w]) IN
                  /\ EvX(w, "expand", f)
                  /\ exists' = [t \in Tests |-> IF t \in Closure[f] THEN [exists[t] EXCEPT ![w] = TRUE] ELSE exists[t]]
                  /\ unrolled' = [unrolled EXCEPT ![f][w] = TRUE]
             /\ UNCHANGED <<pc, path, dir, snap, pbs, pbc, ds, dc, started, finished, results, pool>>

InLoop(w) == pc[w] = "loop" /\ ~CleanupReady(Root, w) /\ Len(path[w]) > 1 /\ ~CanExpand(w)

Bounce(w) == /\ InLoop(w) /\ Occupied(Last(path[w]), w)
             /\ EvX(w, "bounce", Last(path[w]))
             /\ path' = [path EXCEPT ![w] = <<Root>>]
             /\ UNCHANGED <<pc, dir, snap, pbs, pbc, ds, dc, started, finished, results, pool, exists, unrolled>>

PickParent(w) == /\ InLoop(w)
                 /\ LET nx == Last(path[w]) IN
                      /\ ~Occupied(nx, w) /\ ~SetupReady(nx, w)
                      /\ \E p \in BestParents(nx, w) :
                           /\ EvXY(w, "pickparent", nx, p)
                           /\ path' = [path EXCEPT ![w] = Append(@, p)]
                           /\ pbc' = Bump(pbc, p, nx, w)
                 /\ UNCHANGED <<pc, dir, snap, pbs, ds, dc, started, finished, results, pool, exists, unrolled>>

DirOf(w) == IF Prev(path[w]) \in Children[Last(path[w])] THEN "up" ELSE "down"

Skip(w) == /\ InLoop(w)
           /\ LET nx == Last(path[w]) IN
                /\ ~Occupied(nx, w) /\ SetupReady(nx, w) /\ ~MustRun(nx, w)
                /\ EvX(w, "skip", nx)
                /\ finished' = [finished EXCEPT ![nx] = @ \cup {w}]
           /\ pc' = [pc EXCEPT ![w] = "post"] /\ dir' = [dir EXCEPT ![w] = DirOf(w)]
           /\ snap' = [snap EXCEPT ![w] = Unexplored # {}]
           /\ UNCHANGED <<path, pbs, pbc, ds, dc, started, results, pool, exists, unrolled>>

RunStart(w) == /\ InLoop(w)
               /\ LET nx == Last(path[w]) IN
                    /\ ~Occupied(nx, w) /\ SetupReady(nx, w) /\ MustRun(nx, w)
                    /\ EvX(w, IF nx \in ObjRoots THEN "prestart" ELSE "start", nx)
                    /\ started' = [started EXCEPT ![nx][w] = TRUE]
                    /\ results' = IF nx \in ObjRoots THEN results ELSE [results EXCEPT ![nx][w] = Append(@, "UNKNOWN")]
                    /\ pc' = [pc EXCEPT ![w] = IF nx \in ObjRoots THEN "prerunning" ELSE "running"]
               /\ dir' = [dir EXCEPT ![w] = DirOf(w)]
               /\ snap' = [snap EXCEPT ![w] = Unexplored # {}]
               /\ UNCHANGED <<path, pbs, pbc, ds, dc, finished, pool, exists, unrolled>>

PreEnd(w) == /\ pc[w] = "prerunning" /\ EvX(w, "preend", Last(path[w]))
             /\ pc' = [pc EXCEPT ![w] = "preended"]
             /\ UNCHANGED <<path, dir, snap, pbs, pbc, ds, dc, started, finished, results, pool, exists, unrolled>>

MainStart(w) == /\ pc[w] = "preended" /\ EvX(w, "start", Last(path[w]))
                /\ results' = [results EXCEPT ![Last(path[w])][w] = Append(@, "UNKNOWN")]
                /\ pc' = [pc EXCEPT ![w] = "running"]
                /\ UNCHANGED <<path, dir, snap, pbs, pbc, ds, dc, started, finished, pool, exists, unrolled>>

RunEnd(w) == /\ pc[w] = "running"
             /\ LET nx == Last(path[w]) IN
                  /\ EvX(w, "endrun", nx)
                  /\ results' = [results EXCEPT ![nx][w] = [i \in 1..Len(@) |-> IF i = Len(@) THEN "PASS" ELSE @[i]]]
                  /\ pool' = [pool EXCEPT ![w] = @ \cup Sets[nx]]
                  /\ started' = [started EXCEPT ![nx][w] = FALSE]
                  /\ finished' = [finished EXCEPT ![nx] = @ \cup {w}]
             /\ pc' = [pc EXCEPT ![w] = "post"]
             /\ UNCHANGED <<path, dir, snap, pbs, pbc, ds, dc, exists, unrolled>>

PostUp(w) == /\ pc[w] = "post" /\ dir[w] = "up"
             /\ LET nx == Last(path[w])
                    pv == Prev(path[w]) IN
                  /\ EvXY(w, "dropparent", pv, nx)
                  /\ ds' = Bump(ds, pv, nx, w)
             /\ path' = [path EXCEPT ![w] = Pop(@)]
             /\ pc' = [pc EXCEPT ![w] = "loop"]
             /\ UNCHANGED <<dir, snap, pbs, pbc, dc, started, finished, results, pool, exists, unrolled>>

PostDownPick(w) == /\ pc[w] = "post" /\ dir[w] = "down" /\ ~CleanupReady(Last(path[w]), w)
                   /\ LET nx == Last(path[w]) IN \E c \in BestChildren(nx, w) :
                        /\ EvXY(w, "pickchild", nx, c)
                        /\ path' = [path EXCEPT ![w] = Append(@, c)]
                        /\ pbs' = Bump(pbs, c, nx, w)
                   /\ pc' = [pc EXCEPT ![w] = "loop"]
                   /\ UNCHANGED <<dir, snap, pbc, ds, dc, started, finished, results, pool, exists, unrolled>>

Postpone(w) == /\ pc[w] = "post" /\ dir[w] = "down" /\ CleanupReady(Last(path[w]), w)
               /\ Last(path[w]) \notin Flat /\ snap[w]
               /\ EvX(w, "postpone", Last(path[w]))
               /\ path' = [path EXCEPT ![w] = <<Root>>]
               /\ pc' = [pc EXCEPT ![w] = "loop"]
               /\ UNCHANGED <<dir, snap, pbs, pbc, ds, dc, started, finished, results, pool, exists, unrolled>>

Reverse(w) == /\ pc[w] = "post" /\ dir[w] = "down" /\ CleanupReady(Last(path[w]), w)
              /\ ~(Last(path[w]) \notin Flat /\ snap[w])
              /\ LET nx == Last(path[w]) IN
                   /\ EvX(w, "reverse", nx)
                   /\ dc' = [x \in Tests |-> IF x \in Setup[nx] THEN [dc[x] EXCEPT ![nx][w] = @ + 1] ELSE dc[x]]
              /\ path' = [path EXCEPT ![w] = Pop(@)]
              /\ pc' = [pc EXCEPT ![w] = "loop"]
              /\ UNCHANGED <<dir, snap, pbs, pbc, ds, started, finished, results, pool, exists, unrolled>>

Next == \E w \in W : \/ Begin(w) \/ End(w) \/ PickFromRoot(w) \/ Expand(w) \/ Bounce(w) \/ PickParent(w)
                     \/ Skip(w) \/ RunStart(w) \/ PreEnd(w) \/ MainStart(w) \/ RunEnd(w)
                     \/ PostUp(w) \/ PostDownPick(w) \/ Postpone(w) \/ Reverse(w)
Spec == Init /\ [][Next]_vars
Accepted == TLCGet("stats").diameter - 1 = Len(TraceLog)
\* a few invariants evaluated along the trace
OneRunner == \A t \in Tests : Cardinality({w \in W : started[t][w]}) <= 1
====
