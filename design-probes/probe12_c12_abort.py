import sys
sys.path.insert(0, "/repo/selftests/isolation")
import unittest_importer
import logging; logging.disable(logging.CRITICAL)
from unittest import mock
from virttest.utils_params import Params
from avocado_i2n.states import setup as ss

class Mem(ss.StateBackend):
    store = {}   # object_name -> {"root": bool, "states": set}
    calls = []
    @classmethod
    def _o(cls, p):
        t = p["object_type"].split("/")[-1]
        k = p["vms"] + "/" + p["images"] if t == "images" else (p["vms"] if t == "vms" else p["nets"])
        return cls.store.setdefault(k, {"root": False, "states": set()})
    @classmethod
    def show(cls, p, object=None): cls.calls.append(("show", p["object_name"])); return sorted(cls._o(p)["states"])
    @classmethod
    def get(cls, p, object=None): cls.calls.append(("get", p["object_name"], p["get_state"]))
    @classmethod
    def set(cls, p, object=None): cls.calls.append(("set", p["object_name"], p["set_state"])); cls._o(p)["states"].add(p["set_state"])
    @classmethod
    def unset(cls, p, object=None): cls.calls.append(("unset", p["object_name"], p["unset_state"])); cls._o(p)["states"].discard(p["unset_state"])
    @classmethod
    def check_root(cls, p, object=None): return cls._o(p)["root"]
    @classmethod
    def get_root(cls, p, object=None): cls.calls.append(("get_root", p["object_name"]))
    @classmethod
    def set_root(cls, p, object=None): cls.calls.append(("set_root", p["object_name"])); cls._o(p)["root"] = True
    @classmethod
    def unset_root(cls, p, object=None): cls.calls.append(("unset_root", p["object_name"])); cls._o(p)["root"] = False
ss.BACKENDS = {"mem": Mem}
def base():
    p = Params({"nets": "net1", "vms": "vm1", "images": "image1 image2", "states_chain": "nets vms images",
                "states_nets": "mem", "states_vms": "mem", "states_images": "mem", "skip_types": "nets nets/vms"})
    return p
env = mock.MagicMock()
def snap(): return {k: (v["root"], sorted(v["states"])) for k, v in sorted(Mem.store.items())}
# (i) set on two images, image2 aborts (set_mode aa with state present on image2 only)
Mem.store = {"vm1/image1": {"root": True, "states": set()}, "vm1/image2": {"root": True, "states": {"s"}}}; Mem.calls = []
p = base(); p["set_state_images"] = "s"; p["set_mode_images"] = "af"; p["check_mode"] = "rr"
before = snap()
try: ss.set_states(p, env); print("no exception")
except Exception as e: print("EXC", type(e).__name__, str(e)[:60])
print(" before", before); print(" after ", snap()); print(" calls ", [c for c in Mem.calls if c[0] != "show"])
# (ii) get with missing root and default check_mode: root forced before abort?
Mem.store = {"vm1/image1": {"root": False, "states": set()}}; Mem.calls = []
p = base(); p["images"] = "image1"; p["get_state_images"] = "s"
before = snap()
try: ss.get_states(p, env); print("no exception")
except Exception as e: print("EXC", type(e).__name__, str(e)[:60])
print(" before", before); print(" after ", snap()); print(" calls ", [c for c in Mem.calls if c[0] != "show"])
# (iii) invalid policy letter
Mem.store = {"vm1/image1": {"root": True, "states": {"s"}}}; Mem.calls = []
p = base(); p["images"] = "image1"; p["unset_state_images"] = "s"; p["unset_mode_images"] = "xi"; p["check_mode"] = "rr"
try: ss.unset_states(p, env); print("no exception")
except Exception as e: print("EXC", type(e).__name__, str(e)[:60])
print(" after ", snap(), [c for c in Mem.calls if c[0] != "show"])
