SPECIFICATION Spec
CONSTANTS
  W = {"w1", "w2"}
  WOrder <- MCOrder2
  K = 2
  TMAX = 2
  StatusSet = {"PASS", "FAIL"}
INVARIANT C02path
INVARIANT C03
INVARIANT C04
INVARIANT NoEsc
CHECK_DEADLOCK TRUE
