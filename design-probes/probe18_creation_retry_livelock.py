"""THROWAWAY probe: minimal deterministic reproduction of the creation-retry livelock (C02 / C10).

One worker, normal..tutorial1, max_tries=2, nothing in the pools. Every execution passes except the
SECOND run of the creation pre-step (the one belonging to the retry of the install node).
Expected by the properties: bounded number of executions, each reading its own result.
Observed: the pre-step is re-run forever with the same uid and each time the stale FAIL is read.
"""
from envprobe import *
graph = TestGraph.parse_object_trees(None, "only normal\nonly tutorial1\n", "", VM_STRS, {"nets": "net1", "max_tries": "2"})
RUNS = []
class Cap(Exception): pass
def status(short, k):
    pre = [r for r in RUNS if r[0] == "pre"]
    return "FAIL" if CUR[0] == "pre" and len(pre) == 2 else "PASS"
CUR = [None]
class Env3(Env):
    async def run_test_task(self, runner, node):
        kind = "pre" if node.prefix.startswith("0") and ".noop." in node.params["name"] else "main"
        RUNS.append((kind, re.sub(r"\.vms\..*", "", node.params["name"]).split(".")[-1], node.id_test.uid))
        if len(RUNS) > 25: raise Cap()
        CUR[0] = kind
        await Env.run_test_task(self, runner, node)
env = Env3({}, status=status)
try:
    traverse(graph, env, {"test_timeout": 100, "max_tries": "2"})
    print("terminated after", len(RUNS), "executions")
except Cap:
    print("NOT TERMINATING: stopped after", len(RUNS), "executions")
for r in RUNS: print("  ", r)
