---- MODULE MCTrav ----
EXTENDS TravProto
MCOrder2 == <<"w1", "w2">>
MCOrder3 == <<"w1", "w2", "w3">>
====
