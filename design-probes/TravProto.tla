---- MODULE TravProto ----
\* THROWAWAY sizing prototype (not part of /verif): chain r -> a -> b -> l, flat leaf f, max_tries = 1, global scope
EXTENDS Naturals, Sequences, FiniteSets, TLC
CONSTANTS W, WOrder, K, TMAX, StatusSet
\* tests
Tests == {"r", "f", "l", "b", "a"}
Flat == {"r", "f"}
Stateful == {"a", "b"}
Setup == [t \in Tests |-> CASE t = "r" -> {} [] t = "f" -> {"r"} [] t = "l" -> {"f", "b"} [] t = "b" -> {"a"} [] t = "a" -> {"r"}]
Children == [t \in Tests |-> {c \in Tests : t \in Setup[c]}]
Sets == [t \in Tests |-> CASE t = "a" -> {"sa"} [] t = "b" -> {"sb"} [] OTHER -> {}]
Gets == [t \in Tests |-> CASE t = "b" -> {"sa"} [] t = "l" -> {"sb"} [] OTHER -> {}]
Producer == [s \in {"sa", "sb"} |-> IF s = "sa" THEN "a" ELSE "b"]
Prio == [t \in Tests |-> CASE t = "r" -> 0 [] t = "f" -> 1 [] t = "l" -> 2 [] t = "b" -> 3 [] t = "a" -> 4]
States == {"sa", "sb"}
Locs == W \cup {"shared"}
None == "none"

VARIABLES pc, active, startq, wake, path, cont,
          pbs, pbc, ds, dc,          \* registers: picked by setup / by cleanup, dropped setup / cleanup
          started, finished, results, occAt, occWait, conc,
          pool, getloc,
          execs, running, bad
vars == <<pc, active, startq, wake, path, cont, pbs, pbc, ds, dc, started, finished, results, occAt, occWait, conc, pool, getloc, execs, running, bad>>

RECURSIVE SumSet(_, _)
SumSet(f, S) == IF S = {} THEN 0 ELSE LET x == CHOOSE y \in S : TRUE IN f[x] + SumSet(f, S \ {x})
Total(reg, t) == LET pairs == Tests \X W
                     g == [p \in pairs |-> reg[t][p[1]][p[2]]]
                 IN SumSet(g, pairs)
ZeroReg == [t \in Tests |-> [x \in Tests |-> [w \in W |-> 0]]]
Bump(reg, t, x, w) == [reg EXCEPT ![t][x][w] = @ + 1]

SetupReady(t, w) == \A p \in Setup[t] : ds[t][p][w] > 0
CleanupReady(t, w) == \A c \in Children[t] : dc[t][c][w] > 0
Occupied(t, w) == t \notin Flat /\ Cardinality({v \in W : started[t][v]}) >= conc[t][w]

Less(k1, k2) == \/ k1[1] < k2[1]
                \/ k1[1] = k2[1] /\ k1[2] < k2[2]
                \/ k1[1] = k2[1] /\ k1[2] = k2[2] /\ k1[3] < k2[3]
FlatFlag(t) == IF t \in Flat THEN 0 ELSE 1
PickParent(t, w) == LET C == {p \in Setup[t] : ds[t][p][w] = 0}
                        key(p) == <<FlatFlag(p), Total(pbc, p), Prio[p]>>
                    IN CHOOSE p \in C : \A q \in C \ {p} : Less(key(p), key(q))
PickChild(t, w) == LET C == {c \in Children[t] : dc[t][c][w] = 0}
                       key(c) == <<FlatFlag(c), Total(pbs, c), Prio[c]>>
                   IN CHOOSE c \in C : \A q \in C \ {c} : Less(key(c), key(q))

Init == /\ pc = [w \in W |-> "new"] /\ active = None /\ startq = WOrder
        /\ wake = [w \in W |-> 0] /\ path = [w \in W |-> <<"r">>] /\ cont = [w \in W |-> None]
        /\ pbs = ZeroReg /\ pbc = ZeroReg /\ ds = ZeroReg /\ dc = ZeroReg
        /\ started = [t \in Tests |-> [w \in W |-> FALSE]]
        /\ finished = [t \in Tests |-> {}]
        /\ results = [t \in Tests |-> [w \in W |-> <<>>]]
        /\ occAt = [w \in W |-> {}] /\ occWait = [w \in W |-> 0]
        /\ conc = [t \in Tests |-> [w \in W |-> 1]]
        /\ pool \in [Locs -> SUBSET States]
        /\ getloc = [t \in Tests |-> [w \in W |-> {}]]
        /\ execs = [t \in Tests |-> 0] /\ running = [t \in Tests |-> {}] /\ bad = {}

StartNext == /\ active = None /\ startq # <<>>
             /\ active' = Head(startq) /\ startq' = Tail(startq)
             /\ pc' = [pc EXCEPT ![Head(startq)] = "loop"]
             /\ UNCHANGED <<wake, path, cont, pbs, pbc, ds, dc, started, finished, results, occAt, occWait, conc, pool, getloc, execs, running, bad>>

Last(s) == s[Len(s)]
Prev(s) == s[Len(s) - 1]
Pop(s) == SubSeq(s, 1, Len(s) - 1)

\* ---- loop branches (worker w is active and in the loop)
End(w) == /\ active = w /\ pc[w] = "loop" /\ CleanupReady("r", w)
          /\ pc' = [pc EXCEPT ![w] = "done"] /\ active' = None
          /\ bad' = IF path[w] # <<"r">> THEN bad \cup {<<"path", w>>} ELSE bad
          /\ UNCHANGED <<startq, wake, path, cont, pbs, pbc, ds, dc, started, finished, results, occAt, occWait, conc, pool, getloc, execs, running>>

PickFromRoot(w) == /\ active = w /\ pc[w] = "loop" /\ ~CleanupReady("r", w) /\ Len(path[w]) = 1
                   /\ LET c == PickChild("r", w) IN
                        /\ path' = [path EXCEPT ![w] = Append(@, c)]
                        /\ pbs' = Bump(pbs, c, "r", w)
                   /\ UNCHANGED <<pc, active, startq, wake, cont, pbc, ds, dc, started, finished, results, occAt, occWait, conc, pool, getloc, execs, running, bad>>

Bounce(w) == /\ active = w /\ pc[w] = "loop" /\ ~CleanupReady("r", w) /\ Len(path[w]) > 1
             /\ LET nx == Last(path[w]) IN
                  /\ Occupied(nx, w)
                  /\ IF nx \in occAt[w]
                       THEN /\ conc' = IF occWait[w] > K THEN [conc EXCEPT ![nx][w] = @ + 1] ELSE conc
                            /\ occWait' = [occWait EXCEPT ![w] = @ + 1]
                       ELSE /\ conc' = conc /\ occWait' = [occWait EXCEPT ![w] = 0]
                  /\ occAt' = [occAt EXCEPT ![w] = @ \cup {nx}]
             /\ path' = [path EXCEPT ![w] = <<"r">>]
             /\ pc' = [pc EXCEPT ![w] = "sleep"] /\ wake' = [wake EXCEPT ![w] = 1] /\ active' = None
             /\ UNCHANGED <<startq, cont, pbs, pbc, ds, dc, started, finished, results, pool, getloc, execs, running, bad>>

\* run decision of traverse_node (max_tries = 1): TRUE iff the test must be executed now
MustRun(t, w) == IF t \in Flat THEN FALSE
                 ELSE IF t \in Stateful
                      THEN finished[t] = {} /\ ~(Sets[t] \subseteq (pool[w] \cup pool["shared"]))
                      ELSE \A v \in W : results[t][v] = <<>>
PulledLocs(t) == [s \in Gets[t] |-> {"shared"} \cup {v \in W : \E i \in 1..Len(results[Producer[s]][v]) : results[Producer[s]][v][i] = "PASS"}]
StartOK(t, w) == \A s \in Gets[t] :
                    \/ s \in pool[w]
                    \/ \E src \in PulledLocs(t)[s] : s \in pool[src]
                    \/ \E v \in W : \E i \in 1..Len(results[Producer[s]][v]) : results[Producer[s]][v][i] \notin {"PASS", "UNKNOWN"}

\* common "traverse then continue" with optional run; dir \in {"up", "down"}
PostTraverse(w, t, dir, resultsNow, finishedNow, pbsIn, dsIn, dcIn) ==
    \* effects after traverse_node finished for t (should_run again is FALSE with max_tries = 1)
    IF dir = "up"
    THEN /\ ds' = Bump(dsIn, Prev(path[w]), t, w)
         /\ path' = [path EXCEPT ![w] = Pop(@)]
         /\ dc' = dcIn /\ pbs' = pbsIn
    ELSE IF \A c \in Children[t] : dcIn[t][c][w] > 0
         THEN /\ dc' = [x \in Tests |-> IF x \in Setup[t] THEN [dcIn[x] EXCEPT ![t][w] = @ + 1] ELSE dcIn[x]]
              /\ path' = [path EXCEPT ![w] = Pop(@)]
              /\ ds' = dsIn /\ pbs' = pbsIn
         ELSE LET c == PickChild(t, w) IN
              /\ path' = [path EXCEPT ![w] = Append(@, c)]
              /\ pbs' = Bump(pbsIn, c, t, w)
              /\ ds' = dsIn /\ dc' = dcIn

Step(w) == /\ active = w /\ pc[w] = "loop" /\ ~CleanupReady("r", w) /\ Len(path[w]) > 1
           /\ LET nx == Last(path[w])
                  pv == Prev(path[w])
                  dir == IF pv \in Children[nx] THEN "up" ELSE "down" IN
                /\ ~Occupied(nx, w)
                /\ IF ~SetupReady(nx, w)
                   THEN LET p == PickParent(nx, w) IN
                        /\ path' = [path EXCEPT ![w] = Append(@, p)]
                        /\ pbc' = Bump(pbc, p, nx, w)
                        /\ UNCHANGED <<pc, active, wake, cont, pbs, ds, dc, started, finished, results, pool, getloc, execs, running, bad>>
                   ELSE IF MustRun(nx, w)
                        THEN /\ started' = [started EXCEPT ![nx][w] = TRUE]
                             /\ results' = [results EXCEPT ![nx][w] = Append(@, "UNKNOWN")]
                             /\ getloc' = [getloc EXCEPT ![nx][w] = PulledLocs(nx)]
                             /\ bad' = IF StartOK(nx, w) THEN bad ELSE bad \cup {<<"start", nx, w>>}
                             /\ execs' = [execs EXCEPT ![nx] = @ + 1]
                             /\ running' = [running EXCEPT ![nx] = @ \cup {w}]
                             /\ pc' = [pc EXCEPT ![w] = "running"] /\ cont' = [cont EXCEPT ![w] = dir]
                             /\ \E d \in 1..TMAX : wake' = [wake EXCEPT ![w] = d]
                             /\ active' = None
                             /\ UNCHANGED <<path, pbs, pbc, ds, dc, finished, pool>>
                        ELSE /\ finished' = [finished EXCEPT ![nx] = @ \cup {w}]
                             /\ PostTraverse(w, nx, dir, results, finished', pbs, ds, dc)
                             /\ UNCHANGED <<pc, active, wake, cont, pbc, started, results, pool, getloc, execs, running, bad>>
           /\ UNCHANGED <<startq, occAt, occWait, conc>>

RunEnd(w) == /\ active = w /\ pc[w] = "ended"
             /\ LET nx == Last(path[w]) IN
                \E st \in StatusSet :
                  /\ results' = [results EXCEPT ![nx][w] = [i \in 1..Len(@) |-> IF i = Len(@) THEN st ELSE @[i]]]
                  /\ pool' = IF st = "PASS" THEN [pool EXCEPT ![w] = @ \cup Sets[nx]] ELSE pool
                  /\ started' = [started EXCEPT ![nx][w] = FALSE]
                  /\ running' = [running EXCEPT ![nx] = @ \ {w}]
                  /\ finished' = [finished EXCEPT ![nx] = @ \cup {w}]
                  /\ PostTraverse(w, nx, cont[w], results', finished', pbs, ds, dc)
             /\ pc' = [pc EXCEPT ![w] = "loop"] /\ cont' = [cont EXCEPT ![w] = None]
             /\ UNCHANGED <<active, startq, wake, pbc, occAt, occWait, conc, getloc, execs, bad>>

Waiting == {w \in W : pc[w] \in {"sleep", "running"}}
Elapse == /\ active = None /\ startq = <<>> /\ Waiting # {} /\ \A w \in Waiting : wake[w] > 0
          /\ wake' = [w \in W |-> IF w \in Waiting THEN wake[w] - 1 ELSE wake[w]]
          /\ UNCHANGED <<pc, active, startq, path, cont, pbs, pbc, ds, dc, started, finished, results, occAt, occWait, conc, pool, getloc, execs, running, bad>>
Wake(w) == /\ active = None /\ startq = <<>> /\ w \in Waiting /\ wake[w] = 0
           /\ active' = w
           /\ pc' = [pc EXCEPT ![w] = IF pc[w] = "sleep" THEN "loop" ELSE "ended"]
           /\ UNCHANGED <<startq, wake, path, cont, pbs, pbc, ds, dc, started, finished, results, occAt, occWait, conc, pool, getloc, execs, running, bad>>

Done == /\ \A w \in W : pc[w] = "done" /\ UNCHANGED vars

Next == StartNext \/ Elapse \/ Done \/ \E w \in W : End(w) \/ PickFromRoot(w) \/ Bounce(w) \/ Step(w) \/ RunEnd(w) \/ Wake(w)
Spec == Init /\ [][Next]_vars

C01 == \A b \in bad : b[1] # "start"
C02path == \A b \in bad : b[1] # "path"
C03 == \A t \in Tests : execs[t] <= 1
C04 == \A t \in Tests : Cardinality(running[t]) <= 1
NoEsc == \A t \in Tests, w \in W : conc[t][w] = 1
====
