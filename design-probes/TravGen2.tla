---- MODULE TravGen2 ----
\* THROWAWAY probe: generic (data-driven) untimed traversal model used as a TRACE VALIDATOR.
\* Constants come from a generated module (real parsed graph); every action consumes exactly one recorded event.
\* TravGen + retries (should_rerun table, rerunOff, second should_run call, uids, statuses) + removable states
\* (clean decision, unset). Not covered: scopes other than global, clones, replay.
EXTENDS Naturals, Sequences, FiniteSets, TLC, Json, IOUtils
CONSTANTS W, Tests, Root, FlatLeaves, ObjRoots, Stateful, Setup, Sets, Prio, Closure, Unrestricted, InitPool,
          Removable, UnsetSets, MaxTries, MaxConc, RerunSet, StopSet

TraceLog == ndJsonDeserialize(IOEnv.TRACE_FILE)
Flat == FlatLeaves \cup {Root}
Children == [t \in Tests |-> {c \in Tests : t \in Setup[c]}]
None == "none"

VARIABLES pc, path, dir, snap, pbs, pbc, ds, dc, started, finished, results, pool, exists, unrolled, rerunOff, l
vars == <<pc, path, dir, snap, pbs, pbc, ds, dc, started, finished, results, pool, exists, unrolled, rerunOff, l>>

RECURSIVE SumSet(_, _)
SumSet(f, S) == IF S = {} THEN 0 ELSE LET x == CHOOSE y \in S : TRUE IN f[x] + SumSet(f, S \ {x})
Total(reg, t) == LET pairs == Tests \X W
                     g == [p \in pairs |-> reg[t][p[1]][p[2]]]
                 IN SumSet(g, pairs)
ZeroReg == [t \in Tests |-> [x \in Tests |-> [w \in W |-> 0]]]
Bump(reg, t, x, w) == [reg EXCEPT ![t][x][w] = @ + 1]

Relevant(t, w) == t \in Flat \/ exists[t][w]
SetupReady(t, w) == \A p \in Setup[t] : Relevant(p, w) => ds[t][p][w] > 0
CleanupReady(t, w) == \A c \in Children[t] : Relevant(c, w) => dc[t][c][w] > 0
Occupied(t, w) == t \notin Flat /\ Cardinality({v \in W : started[t][v]}) >= MaxConc
Less(k1, k2) == \/ k1[1] < k2[1]
                \/ k1[1] = k2[1] /\ k1[2] < k2[2]
                \/ k1[1] = k2[1] /\ k1[2] = k2[2] /\ k1[3] < k2[3]
FlatFlag(t) == IF t \in Flat THEN 0 ELSE 1
ParentCands(t, w) == {p \in Setup[t] : Relevant(p, w) /\ ds[t][p][w] = 0}
ChildCands(t, w) == {c \in Children[t] : Relevant(c, w) /\ dc[t][c][w] = 0}
\* the prefix tie-break is dynamic under lazy parsing (prefixes depend on expansion order): left nondeterministic
BestParents(t, w) == LET C == ParentCands(t, w)
                         key(p) == <<FlatFlag(p), Total(pbc, p), 0>>
                     IN {p \in C : \A q \in C : ~Less(key(q), key(p))}
BestChildren(t, w) == LET C == ChildCands(t, w)
                          key(c) == <<FlatFlag(c), Total(pbs, c), 0>>
                      IN {c \in C : \A q \in C : ~Less(key(q), key(c))}

Involved(t) == {w \in W : \E x \in Tests : pbs[t][x][w] > 0 \/ pbc[t][x][w] > 0}
Unexplored == {f \in FlatLeaves : \A w \in W : ~unrolled[f][w]}
ShouldParse(f, w) == ~\E pw \in Involved(f) : unrolled[f][pw] /\ CleanupReady(f, pw) /\ pw \in Unrestricted
Last(s) == s[Len(s)]
Prev(s) == s[Len(s) - 1]
Pop(s) == SubSeq(s, 1, Len(s) - 1)

CanExpand(w) == /\ Len(path[w]) > 1
                /\ LET nx == Last(path[w]) IN
                     nx \in FlatLeaves /\ ~unrolled[nx][w] /\ (Unexplored # {} \/ ShouldParse(nx, w))

\* ---- run decision (default_run_decision + should_rerun), explicit in the state components it reads
RECURSIVE SeqSet(_)
SeqSet(q) == IF q = <<>> THEN {} ELSE {Head(q)} \cup SeqSet(Tail(q))
AllStat(res, t) == UNION {SeqSet(res[t][v]) : v \in W}
NumRes(res, t) == LET f == [v \in W |-> Len(res[t][v])] IN SumSet(f, W)
ShouldRerun(res, t) == /\ AllStat(res, t) \subseteq RerunSet
                       /\ StopSet \cap AllStat(res, t) = {}
                       /\ MaxTries # 1 /\ MaxTries - NumRes(res, t) > 0
Present(pl, t, w) == Sets[t] \subseteq (pl[w] \cup pl["shared"])
\* returns <<run, off>>: whether to run, and the new value of rerunOff[t][w]
Decide(res, fin, pl, off, t, w) ==
    IF t \in Flat THEN <<FALSE, off>>
    ELSE IF t \notin Stateful
         THEN <<NumRes(res, t) = 0 \/ (~off /\ ShouldRerun(res, t)), off>>
         ELSE LET scan == fin[t] = {}
                  fromscan == scan /\ ~Present(pl, t, w)
                  off2 == off \/ (NumRes(res, t) = 0 /\ ~fromscan)
              IN <<fromscan \/ (~off2 /\ ShouldRerun(res, t)), off2>>
MustRun(t, w) == Decide(results, finished, pool, rerunOff[t][w], t, w)[1]
OffAfter(t, w) == Decide(results, finished, pool, rerunOff[t][w], t, w)[2]
Uid(t) == NumRes(results, t)

\* ---- clean decision (default_clean_decision) for a reversal by w; TRUE iff an unset request is issued
Involved2(t) == {v \in W : \E x \in Tests : pbs[t][x][v] > 0 \/ pbc[t][x][v] > 0}
WillUnset(t, w) == /\ t \notin Flat /\ t \in Removable /\ t \in Stateful
                   /\ \A pv \in Involved2(t) : CleanupReady(t, pv) /\ "UNKNOWN" \notin SeqSet(results[t][pv])
                   /\ finished[t] = Involved2(t)

Ev(w, a) == l <= Len(TraceLog) /\ TraceLog[l].w = w /\ TraceLog[l].a = a /\ l' = l + 1
EvX(w, a, x) == Ev(w, a) /\ TraceLog[l].x = x
EvXY(w, a, x, y) == EvX(w, a, x) /\ TraceLog[l].y = y

Init == /\ pc = [w \in W |-> "new"] /\ path = [w \in W |-> <<Root>>] /\ dir = [w \in W |-> None]
        /\ snap = [w \in W |-> FALSE]
        /\ pbs = ZeroReg /\ pbc = ZeroReg /\ ds = ZeroReg /\ dc = ZeroReg
        /\ started = [t \in Tests |-> [w \in W |-> FALSE]]
        /\ finished = [t \in Tests |-> {}]
        /\ results = [t \in Tests |-> [w \in W |-> <<>>]]
        /\ pool = InitPool
        /\ exists = [t \in Tests |-> [w \in W |-> FALSE]]
        /\ unrolled = [f \in FlatLeaves |-> [w \in W |-> FALSE]]
        /\ rerunOff = [t \in Tests |-> [w \in W |-> FALSE]]
        /\ l = 1

Begin(w) == /\ pc[w] = "new" /\ Ev(w, "begin") /\ pc' = [pc EXCEPT ![w] = "loop"]
            /\ UNCHANGED <<path, dir, snap, pbs, pbc, ds, dc, started, finished, results, pool, exists, unrolled, rerunOff>>

End(w) == /\ pc[w] = "loop" /\ CleanupReady(Root, w) /\ path[w] = <<Root>> /\ Ev(w, "end")
          /\ pc' = [pc EXCEPT ![w] = "done"]
          /\ UNCHANGED <<path, dir, snap, pbs, pbc, ds, dc, started, finished, results, pool, exists, unrolled, rerunOff>>

PickFromRoot(w) == /\ pc[w] = "loop" /\ ~CleanupReady(Root, w) /\ Len(path[w]) = 1
                   /\ \E c \in BestChildren(Root, w) :
                        /\ EvXY(w, "pickchild", Root, c)
                        /\ path' = [path EXCEPT ![w] = Append(@, c)]
                        /\ pbs' = Bump(pbs, c, Root, w)
                   /\ UNCHANGED <<pc, dir, snap, pbc, ds, dc, started, finished, results, pool, exists, unrolled, rerunOff>>

Expand(w) == /\ pc[w] = "loop" /\ ~CleanupReady(Root, w) /\ CanExpand(w)
             /\ LET f == Last(path[w]) IN
                  /\ EvX(w, "expand", f)
                  /\ exists' = [t \in Tests |-> IF t \in Closure[f] THEN [exists[t] EXCEPT ![w] = TRUE] ELSE exists[t]]
                  /\ unrolled' = [unrolled EXCEPT ![f][w] = TRUE]
             /\ UNCHANGED <<pc, path, dir, snap, pbs, pbc, ds, dc, started, finished, results, pool, rerunOff>>

InLoop(w) == pc[w] = "loop" /\ ~CleanupReady(Root, w) /\ Len(path[w]) > 1 /\ ~CanExpand(w)

Bounce(w) == /\ InLoop(w) /\ Occupied(Last(path[w]), w)
             /\ EvX(w, "bounce", Last(path[w]))
             /\ path' = [path EXCEPT ![w] = <<Root>>]
             /\ UNCHANGED <<pc, dir, snap, pbs, pbc, ds, dc, started, finished, results, pool, exists, unrolled, rerunOff>>

PickParent(w) == /\ InLoop(w)
                 /\ LET nx == Last(path[w]) IN
                      /\ ~Occupied(nx, w) /\ ~SetupReady(nx, w)
                      /\ \E p \in BestParents(nx, w) :
                           /\ EvXY(w, "pickparent", nx, p)
                           /\ path' = [path EXCEPT ![w] = Append(@, p)]
                           /\ pbc' = Bump(pbc, p, nx, w)
                 /\ UNCHANGED <<pc, dir, snap, pbs, ds, dc, started, finished, results, pool, exists, unrolled, rerunOff>>

DirOf(w) == IF Prev(path[w]) \in Children[Last(path[w])] THEN "up" ELSE "down"

\* what happens right after traverse_node returned (no await in between): the loop calls should_run a second time;
\* "again" pops the path silently (up: without dropping the parent; down: retry from above), otherwise -> "post"
After(w, t, res2, fin2, pl2, off1) ==
    LET dec == Decide(res2, fin2, pl2, off1, t, w) IN
      /\ rerunOff' = [rerunOff EXCEPT ![t][w] = dec[2]]
      /\ IF dec[1] THEN /\ path' = [path EXCEPT ![w] = Pop(@)] /\ pc' = [pc EXCEPT ![w] = "loop"]
                   ELSE /\ path' = path /\ pc' = [pc EXCEPT ![w] = "post"]

Skip(w) == /\ InLoop(w)
           /\ LET nx == Last(path[w]) IN
                /\ ~Occupied(nx, w) /\ SetupReady(nx, w) /\ ~MustRun(nx, w)
                /\ EvX(w, "skip", nx)
                /\ finished' = [finished EXCEPT ![nx] = @ \cup {w}]
                /\ After(w, nx, results, finished', pool, OffAfter(nx, w))
           /\ dir' = [dir EXCEPT ![w] = DirOf(w)]
           /\ snap' = [snap EXCEPT ![w] = Unexplored # {}]
           /\ UNCHANGED <<pbs, pbc, ds, dc, started, results, pool, exists, unrolled>>

RunStart(w) == /\ InLoop(w)
               /\ LET nx == Last(path[w]) IN
                    /\ ~Occupied(nx, w) /\ SetupReady(nx, w) /\ MustRun(nx, w)
                    /\ EvX(w, IF nx \in ObjRoots THEN "prestart" ELSE "start", nx)
                    /\ nx \notin ObjRoots => TraceLog[l].u = Uid(nx)
                    /\ started' = [started EXCEPT ![nx][w] = TRUE]
                    /\ results' = IF nx \in ObjRoots THEN results ELSE [results EXCEPT ![nx][w] = Append(@, "UNKNOWN")]
                    /\ pc' = [pc EXCEPT ![w] = IF nx \in ObjRoots THEN "prerunning" ELSE "running"]
                    /\ rerunOff' = [rerunOff EXCEPT ![nx][w] = OffAfter(nx, w)]
               /\ dir' = [dir EXCEPT ![w] = DirOf(w)]
               /\ snap' = [snap EXCEPT ![w] = Unexplored # {}]
               /\ UNCHANGED <<path, pbs, pbc, ds, dc, finished, pool, exists, unrolled>>

\* creation pre-step: its result lives on a throwaway node; failure ends the traversal of the object root
PreEnd(w) == /\ pc[w] = "prerunning"
             /\ LET nx == Last(path[w]) IN
                  /\ EvX(w, "preend", nx)
                  /\ IF TraceLog[l].s \in {"FAIL", "ERROR"}
                     THEN /\ started' = [started EXCEPT ![nx][w] = FALSE]
                          /\ finished' = [finished EXCEPT ![nx] = @ \cup {w}]
                          /\ After(w, nx, results, finished', pool, rerunOff[nx][w])
                     ELSE /\ pc' = [pc EXCEPT ![w] = "preended"]
                          /\ UNCHANGED <<path, started, finished, rerunOff>>
             /\ UNCHANGED <<dir, snap, pbs, pbc, ds, dc, results, pool, exists, unrolled>>

MainStart(w) == /\ pc[w] = "preended" /\ EvX(w, "start", Last(path[w]))
                /\ TraceLog[l].u = Uid(Last(path[w]))
                /\ results' = [results EXCEPT ![Last(path[w])][w] = Append(@, "UNKNOWN")]
                /\ pc' = [pc EXCEPT ![w] = "running"]
                /\ UNCHANGED <<path, dir, snap, pbs, pbc, ds, dc, started, finished, pool, exists, unrolled, rerunOff>>

RunEnd(w) == /\ pc[w] = "running"
             /\ LET nx == Last(path[w])
                    st == TraceLog[l].s IN
                  /\ EvX(w, "endrun", nx)
                  /\ results' = [results EXCEPT ![nx][w] = [i \in 1..Len(@) |-> IF i = Len(@) THEN st ELSE @[i]]]
                  /\ pool' = IF st \in {"PASS", "WARN"} THEN [pool EXCEPT ![w] = @ \cup Sets[nx]] ELSE pool
                  /\ started' = [started EXCEPT ![nx][w] = FALSE]
                  /\ finished' = [finished EXCEPT ![nx] = @ \cup {w}]
                  /\ After(w, nx, results', finished', pool', rerunOff[nx][w])
             /\ UNCHANGED <<dir, snap, pbs, pbc, ds, dc, exists, unrolled>>

PostUp(w) == /\ pc[w] = "post" /\ dir[w] = "up"
             /\ LET nx == Last(path[w])
                    pv == Prev(path[w]) IN
                  /\ EvXY(w, "dropparent", pv, nx)
                  /\ ds' = Bump(ds, pv, nx, w)
             /\ path' = [path EXCEPT ![w] = Pop(@)]
             /\ pc' = [pc EXCEPT ![w] = "loop"]
             /\ UNCHANGED <<dir, snap, pbs, pbc, dc, started, finished, results, pool, exists, unrolled, rerunOff>>

PostDownPick(w) == /\ pc[w] = "post" /\ dir[w] = "down" /\ ~CleanupReady(Last(path[w]), w)
                   /\ LET nx == Last(path[w]) IN \E c \in BestChildren(nx, w) :
                        /\ EvXY(w, "pickchild", nx, c)
                        /\ path' = [path EXCEPT ![w] = Append(@, c)]
                        /\ pbs' = Bump(pbs, c, nx, w)
                   /\ pc' = [pc EXCEPT ![w] = "loop"]
                   /\ UNCHANGED <<dir, snap, pbc, ds, dc, started, finished, results, pool, exists, unrolled, rerunOff>>

Postpone(w) == /\ pc[w] = "post" /\ dir[w] = "down" /\ CleanupReady(Last(path[w]), w)
               /\ Last(path[w]) \notin Flat /\ snap[w]
               /\ EvX(w, "postpone", Last(path[w]))
               /\ path' = [path EXCEPT ![w] = <<Root>>]
               /\ pc' = [pc EXCEPT ![w] = "loop"]
               /\ UNCHANGED <<dir, snap, pbs, pbc, ds, dc, started, finished, results, pool, exists, unrolled, rerunOff>>

Reverse(w) == /\ pc[w] = "post" /\ dir[w] = "down" /\ CleanupReady(Last(path[w]), w)
              /\ ~(Last(path[w]) \notin Flat /\ snap[w])
              /\ LET nx == Last(path[w])
                     u == ~Occupied(nx, w) /\ WillUnset(nx, w) IN
                   /\ EvX(w, "reverse", nx)
                   /\ TraceLog[l].u = (IF u THEN 1 ELSE 0)
                   /\ dc' = [x \in Tests |-> IF x \in Setup[nx] THEN [dc[x] EXCEPT ![nx][w] = @ + 1] ELSE dc[x]]
                   /\ pool' = IF u THEN [pool EXCEPT ![w] = @ \ UnsetSets[nx]] ELSE pool
              /\ path' = [path EXCEPT ![w] = Pop(@)]
              /\ pc' = [pc EXCEPT ![w] = "loop"]
              /\ UNCHANGED <<dir, snap, pbs, pbc, ds, started, finished, results, exists, unrolled, rerunOff>>

Next == \E w \in W : \/ Begin(w) \/ End(w) \/ PickFromRoot(w) \/ Expand(w) \/ Bounce(w) \/ PickParent(w)
                     \/ Skip(w) \/ RunStart(w) \/ PreEnd(w) \/ MainStart(w) \/ RunEnd(w)
                     \/ PostUp(w) \/ PostDownPick(w) \/ Postpone(w) \/ Reverse(w)
Spec == Init /\ [][Next]_vars
Accepted == TLCGet("stats").diameter - 1 = Len(TraceLog)
\* a few invariants evaluated along the trace
ConcBound == \A t \in Tests : Cardinality({w \in W : started[t][w]}) <= MaxConc
TryBound == \A t \in Tests : NumRes(results, t) <= (IF MaxTries > 1 THEN MaxTries ELSE 1)
====
