"""THROWAWAY probe (C14): real processes contending for one pool file through avocado_i2n.states.pool.TransferOps.

Children wrap pool.shutil.copy / pool.os.unlink so that every critical-section step appends an event to one
O_APPEND log while the fcntl lock is held; one child is SIGKILLed inside its critical section.
Checks: critical sections never overlap; the lock is usable again after the kill; a waiter with a short
timeout raises instead of proceeding; destination == source after a copy; source unchanged.
"""
import sys, os, time, json, signal, hashlib, tempfile, shutil, multiprocessing as mp
sys.path.insert(0, "/repo/selftests/isolation")
import unittest_importer
import logging; logging.disable(logging.CRITICAL)
from virttest.utils_params import Params
from avocado_i2n.states import pool

ROOT = tempfile.mkdtemp(prefix="c14_", dir="/tmp/probe")
LOG = os.path.join(ROOT, "events.log")
POOL = os.path.join(ROOT, "pool", "vm1", "image.qcow2")

def emit(**kw):
    fd = os.open(LOG, os.O_WRONLY | os.O_APPEND | os.O_CREAT)
    os.write(fd, (json.dumps(dict(kw, pid=os.getpid(), t=time.monotonic())) + "\n").encode()); os.close(fd)

def child(i, op, hold, die, timeout):
    cache = os.path.join(ROOT, f"cache{i}", "vm1", "image.qcow2")
    os.makedirs(os.path.dirname(cache), exist_ok=True)
    if op == "upload":
        open(cache, "wb").write(os.urandom(4096) + bytes([i]))
    real_copy, real_unlink = shutil.copy, os.unlink
    def copy(src, dst):
        emit(ev="enter", who=i, op=op)
        time.sleep(hold)
        if die: os.kill(os.getpid(), signal.SIGKILL)
        r = real_copy(src, dst)
        emit(ev="exit", who=i, op=op, same=hashlib.md5(open(src, "rb").read()).hexdigest() == hashlib.md5(open(dst, "rb").read()).hexdigest())
        return r
    def unlink(p):
        emit(ev="enter", who=i, op=op); time.sleep(hold); r = real_unlink(p); emit(ev="exit", who=i, op=op); return r
    pool.shutil = type("S", (), {"copy": staticmethod(copy)})
    class OS:  # proxy that only replaces unlink
        def __getattr__(self, n): return unlink if n == "unlink" else getattr(os, n)
    pool.os = OS()
    params = Params({"update_pool_timeout": str(timeout)})
    try:
        {"upload": lambda: pool.TransferOps.upload_local(cache, POOL, params),
         "download": lambda: pool.TransferOps.download_local(cache, POOL, params),
         "delete": lambda: pool.TransferOps.delete_local(POOL, params)}[op]()
        emit(ev="done", who=i, op=op)
    except Exception as e:
        emit(ev="raised", who=i, op=op, exc=type(e).__name__ + ": " + str(e)[:60])

if __name__ == "__main__":
    os.makedirs(os.path.dirname(POOL), exist_ok=True)
    open(POOL, "wb").write(os.urandom(4096))
    plan = [(0, "upload", 0.3, False, 30), (1, "download", 0.2, False, 30), (2, "upload", 0.5, True, 30),   # 2 dies inside its CS
            (3, "download", 0.1, False, 30), (4, "delete", 0.1, False, 30), (5, "upload", 0.1, False, 30),
            (6, "download", 0.1, False, 1)]                                                                # short timeout
    procs = [mp.Process(target=child, args=a) for a in plan]
    for p in procs: p.start(); time.sleep(0.02)
    for p in procs: p.join()
    evs = [json.loads(l) for l in open(LOG)]
    inside, overlap = None, []
    for e in evs:
        if e["ev"] == "enter":
            if inside is not None and inside != 2: overlap.append((inside, e["who"]))   # 2 was killed inside: no exit expected
            inside = e["who"]
        elif e["ev"] == "exit":
            inside = None
    print("events:", [(e["who"], e["ev"], e.get("exc", e.get("same", ""))) for e in evs])
    print("exit codes:", [p.exitcode for p in procs])
    print("overlaps:", overlap, "| killed-in-CS child:", 2, "| later entries after the kill:", [e["who"] for e in evs if e["ev"] == "enter" and evs.index(e) > [k for k, x in enumerate(evs) if x["who"] == 2 and x["ev"] == "enter"][0]])
    shutil.rmtree(ROOT)
