import sys, os
sys.path.insert(0, "/repo/selftests/isolation")
import unittest_importer
import logging; logging.disable(logging.CRITICAL)
from unittest import mock
from virttest.utils_params import Params
from avocado_i2n.states import qcow2, ramfile

def listing(states):
    hdr = "Snapshot list:\nID        TAG                 VM SIZE                DATE       VM CLOCK\n"
    return hdr + "".join(f"{i+1}         {s}   1 GiB 2014-05-16 12:13:45   00:00:02.079\n" for i, s in enumerate(states))

def run(per_image):
    params = Params({"vms": "vm1", "images": " ".join(per_image), "images_base_dir": "/tmp", "object_type": "nets/vms"})
    for img in per_image: params[f"image_name_{img}"] = img
    with mock.patch.object(qcow2, "QemuImg") as Q:
        def mk(p, d, tag):
            m = mock.MagicMock(); m.snapshot_list.return_value = listing(per_image[tag]); return m
        Q.side_effect = mk
        try:
            return sorted(qcow2.QCOW2VTBackend.show(params, None))
        except Exception as e:
            return "EXC " + repr(e)
print("1 img [a,b]      ->", run({"image1": ["a","b"]}))
print("2 img [a,b],[a]  ->", run({"image1": ["a","b"], "image2": ["a"]}), " (expected ['a'])")
print("2 img [],[a]     ->", run({"image1": [], "image2": ["a"]}), " (expected [])")

from avocado_i2n.vmnet.tunnel import VMTunnel
def node(name, ip):
    n = mock.MagicMock(); n.name = name
    n.params = Params({"lan_nic": "b2", "internet_nic": "b1"})
    ifc = mock.MagicMock(); ifc.ip = ip
    nc = mock.MagicMock(); nc.net_ip = "10.0.0.0"; nc.netmask="255.255.0.0"; ifc.netconfig = nc
    n.interfaces = {"b1": ifc, "b2": ifc}
    return n
for auth in [None, {"type": "none"}, {"type": "pubkey"}]:
    try:
        t = VMTunnel("t1", node("vm1","1.1.1.1"), node("vm2","2.2.2.2"), auth=auth)
        print("auth", auth, "->", t.params["vpnconn_key_type_t1"])
    except Exception as e:
        print("auth", auth, "-> EXC", repr(e)[:120])
