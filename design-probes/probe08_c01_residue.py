from envprobe import *
graph = TestGraph.parse_object_trees(None, "only normal\nonly tutorial1,tutorial3\n", "", VM_STRS, {"nets": "net1 net2"})
store = {"shared": {("images_image1_vm1", "install"), ("images_image1_vm2", "install"), ("images_image1_vm2", "customize")},
         "net1": {("images_image1_vm1", "customize")}}
env = Env(store)
traverse(graph, env, {"test_timeout": 100})
for e in env.events:
    if e[0] in ("start",): print(e[:5], "MISSING" if e[5] else "", e[5])
    elif e[0] == "scan": print("   scan", e[1], e[2], e[3])
