"""Run the manual tools of avocado_i2n.intertest_setup on the real code with the traversal environment
(virtual time, state-control door answering from a store, fake test process)."""
import asyncio
import contextlib
import os
import re
from unittest import mock

from ..sched import harness as H


def run_tool(tool, config, store, sched, tag="0m0", cap=30000):
    """calls intertest_setup.<tool>(config, tag) with the seams substituted; returns dict(events, retcode, exc, store)"""
    from avocado_i2n import intertest_setup
    from avocado_i2n.cartgraph import TestWorker
    from avocado_i2n.cartgraph import node as nodemod
    from avocado_i2n.plugins.runner import TestRunner
    ids = {"ROOT": "t0"}
    rec = H.Recorder(ids, [], cap=cap)
    env = H.Env(rec, store, sched)
    jobs = []

    @contextlib.contextmanager
    def new_job(cfg):
        job = mock.MagicMock()
        job.logdir = "."
        job.timeout = None
        job.config = cfg
        job.result.tests = []
        loader, runner = cfg["graph"].l, cfg["graph"].r
        loader.logdir = job.logdir
        runner.job = job
        jobs.append(job)
        yield job

    def get_session(self):
        s = mock.MagicMock()
        s.wid = self.id
        return s

    async def rtt(self, node):
        rec.runs += 1
        # tools name their nodes differently: record the full name, the harness user classifies
        await env.run_test_task(self, node)

    # class ids for tools: worker-invariant name
    def tid(node):
        k = H.cls_name(node)
        if k not in ids:
            ids[k] = "t%d" % len(ids)
        return ids[k]
    rec.tid = tid
    loop = H.make_loop()
    asyncio.set_event_loop(loop)
    out = {"retcode": None, "exc": None}
    rec.install()
    try:
        with mock.patch.object(intertest_setup, "new_job", new_job), \
                mock.patch("avocado_i2n.cartgraph.worker.remote.wait_for_login", mock.MagicMock()), \
                mock.patch.object(nodemod, "door", env), \
                mock.patch.object(TestWorker, "start", mock.MagicMock(return_value=True)), \
                mock.patch("avocado_i2n.plugins.runner.SpawnerDispatcher", mock.MagicMock()), \
                mock.patch.object(TestRunner, "run_test_task", rtt), \
                mock.patch.object(TestWorker, "get_session", get_session), \
                mock.patch.object(intertest_setup.TestGraph, "visualize", mock.MagicMock()):
            try:
                out["retcode"] = getattr(intertest_setup, tool)(config, tag=tag)
            except H.Watchdog:
                out["exc"] = "Watchdog"
            except BaseException as ex:
                out["exc"] = "%s: %s" % (type(ex).__name__, str(ex)[:300])
    finally:
        rec.uninstall()
        try:
            loop.close()
        except Exception:
            pass
    out["events"] = rec.log
    out["ids"] = dict(ids)
    out["store"] = {k: sorted("%s:%s" % x for x in v) for k, v in env.store.items()}
    return out


def base_config(nets="net1", vm_strs=None):
    from virttest import utils_params
    avail = {"vm1": "only CentOS\n", "vm2": "only Win10\n", "vm3": "only Ubuntu\n"}
    cfg = {"available_vms": dict(avail), "available_restrictions": ["leaves", "normal", "minimal"],
           "param_dict": {"nets": nets, "test_timeout": 100}, "vm_strs": dict(vm_strs or avail), "tests_str": {},
           "tests_params": utils_params.Params(), "vms_params": utils_params.Params()}
    return cfg
