"""TLA+ values: parser for what TLC prints, and emitter of Python values as TLA+ literals.

Parsed representation: int, bool, str (TLA+ strings), Mv(name) for model values / identifiers,
tuple for sequences <<..>>, frozenset for sets, dict for records and functions (:> / @@).
"""
import re


class Mv(str):
    """a model value / bare identifier"""

    def __repr__(self):
        return "Mv(%s)" % str.__repr__(self)


class ParseError(Exception):
    pass


_tok = re.compile(
    r"""\s*(?:
    (?P<str>"(?:[^"\\]|\\.)*")|
    (?P<int>-?\d+)|
    (?P<id>[A-Za-z_][A-Za-z0-9_!]*)|
    (?P<op>\|->|:>|@@|<<|>>|\.\.|[\[\]{}(),])
    )""",
    re.X,
)


def _tokens(s):
    pos, out = 0, []
    n = len(s)
    while pos < n:
        m = _tok.match(s, pos)
        if not m:
            if s[pos:].strip() == "":
                break
            raise ParseError("bad token at %d: %r" % (pos, s[pos : pos + 40]))
        pos = m.end()
        kind = m.lastgroup
        out.append((kind, m.group(kind)))
    return out


def _unescape(s):
    return re.sub(r"\\(.)", lambda m: {"n": "\n", "t": "\t"}.get(m.group(1), m.group(1)), s[1:-1])


class _P:
    def __init__(self, toks):
        self.t, self.i = toks, 0

    def peek(self):
        return self.t[self.i] if self.i < len(self.t) else (None, None)

    def eat(self, val=None):
        k, v = self.peek()
        if val is not None and v != val:
            raise ParseError("expected %r got %r at %d" % (val, v, self.i))
        self.i += 1
        return k, v

    def value(self):
        v = self.atom()
        if self.peek()[1] == "..":
            self.eat()
            hi = self.atom()
            return frozenset(range(v, hi + 1))
        return v

    def atom(self):
        k, v = self.eat()
        if k == "str":
            return _unescape(v)
        if k == "int":
            return int(v)
        if k == "id":
            if v == "TRUE":
                return True
            if v == "FALSE":
                return False
            return Mv(v)
        if v == "<<":
            items = []
            while self.peek()[1] != ">>":
                items.append(self.value())
                if self.peek()[1] == ",":
                    self.eat()
            self.eat(">>")
            return tuple(items)
        if v == "{":
            items = []
            while self.peek()[1] != "}":
                items.append(self.value())
                if self.peek()[1] == ",":
                    self.eat()
            self.eat("}")
            return frozenset(_freeze(x) for x in items)
        if v == "[":
            rec = {}
            while self.peek()[1] != "]":
                _, key = self.eat()
                self.eat("|->")
                rec[str(key)] = self.value()
                if self.peek()[1] == ",":
                    self.eat()
            self.eat("]")
            return rec
        if v == "(":
            fun = {}
            while True:
                key = self.value()
                self.eat(":>")
                fun[_freeze(key)] = self.value()
                if self.peek()[1] == "@@":
                    self.eat()
                    continue
                break
            self.eat(")")
            return fun
        raise ParseError("unexpected %r at %d" % (v, self.i))


class FrozenDict(dict):
    def __hash__(self):
        return hash(frozenset(self.items()))


def _freeze(x):
    if isinstance(x, dict):
        return FrozenDict((k, _freeze(v)) for k, v in x.items())
    if isinstance(x, (list, tuple)):
        return tuple(_freeze(v) for v in x)
    if isinstance(x, (set, frozenset)):
        return frozenset(_freeze(v) for v in x)
    return x


def parse(s):
    p = _P(_tokens(s))
    v = p.value()
    if p.i != len(p.t):
        raise ParseError("trailing tokens in %r" % s[:80])
    return v


def parse_state(text):
    """parse a TLC state `/\\ a = v\\n/\\ b = w` (also `a = v` single variable) into a dict"""
    out = {}
    parts = re.split(r"(?:^|\n)\s*/\\ ", "\n" + text.strip())
    for part in parts:
        part = part.strip()
        if not part:
            continue
        m = re.match(r"([A-Za-z_][A-Za-z0-9_]*)\s*=\s*(.*)$", part, re.S)
        if not m:
            raise ParseError("bad conjunct %r" % part[:60])
        out[m.group(1)] = parse(m.group(2))
    return out


def plain(v):
    """convert a parsed value into plain JSON-like python (sets -> sorted lists, Mv -> str)"""
    if isinstance(v, dict):
        return {str(k) if not isinstance(k, tuple) else k: plain(x) for k, x in v.items()}
    if isinstance(v, tuple):
        return [plain(x) for x in v]
    if isinstance(v, frozenset):
        return sorted((plain(x) for x in v), key=repr)
    if isinstance(v, Mv):
        return str(v)
    return v


def tla(v):
    """emit a python value as a TLA+ literal"""
    if isinstance(v, bool):
        return "TRUE" if v else "FALSE"
    if isinstance(v, Mv):
        return str(v)
    if isinstance(v, int):
        return str(v)
    if isinstance(v, str):
        return '"' + v.replace("\\", "\\\\").replace('"', '\\"') + '"'
    if isinstance(v, (list, tuple)):
        return "<<" + ", ".join(tla(x) for x in v) + ">>"
    if isinstance(v, (set, frozenset)):
        return "{" + ", ".join(sorted(tla(x) for x in v)) + "}"
    if isinstance(v, dict):
        if not v:
            return "<<>>"
        if all(isinstance(k, str) and re.match(r"^[A-Za-z_][A-Za-z0-9_]*$", k) and not isinstance(k, Mv) for k in v):
            return "[" + ", ".join("%s |-> %s" % (k, tla(x)) for k, x in v.items()) + "]"
        return "(" + " @@ ".join("%s :> %s" % (tla(k), tla(x)) for k, x in v.items()) + ")"
    if v is None:
        return '"none"'
    raise TypeError("cannot emit %r" % (v,))
