"""TLC as the monitor of recorded traversals: constants of an instance -> MC module, traces -> JSON, verdicts back."""
import json
import os
import re

from .. import common as C
from ..tlaval import tla, parse

ROOTISH = {"root", "0root", "boot", "0boot"}
ALL_STATUSES = ["FAIL", "ERROR", "PASS", "WARN", "SKIP", "CANCEL", "INTERRUPTED", "UNKNOWN"]
SEAM = {"start", "prestart", "preend", "endrun", "scan", "unset", "sync", "end", "error"}


def producible(s):
    return s.split(":", 1)[1] not in ROOTISH


def write_obs_model(work, inst, name="MC_Obs"):
    c = inst.const
    tests = sorted(c["tests"], key=lambda t: int(t[1:]))

    def fun(f):
        return "[t \\in MCTests |-> " + " ".join(("CASE" if i == 0 else "[]") + " t = %s -> %s" % (tla(t), f(t)) for i, t in enumerate(tests)) + "]"

    ws = c["workers"]

    def wfun(f):
        return "[w \\in MCWorkers |-> " + " ".join(("CASE" if i == 0 else "[]") + " w = %s -> %s" % (tla(w), tla(f(w))) for i, w in enumerate(ws)) + "]"

    with open(os.path.join(work, name + ".tla"), "w") as f:
        f.write("---- MODULE %s ----\nEXTENDS TraversalObs\n" % name)
        f.write("MCWorkers == %s\nMCTests == %s\n" % (tla(set(ws)), tla(set(tests))))
        f.write("MCGets == %s\n" % fun(lambda t: tla({s for s in c["tests"][t]["gets"] if producible(s)})))
        f.write("MCSets == %s\n" % fun(lambda t: tla({s for s in c["tests"][t]["sets"] if producible(s)})))
        f.write("MCUnsets == %s\n" % fun(lambda t: tla(set(c["tests"][t]["unsets"]))))
        f.write("MCObjRoots == %s\nMCCloneSrcs == %s\n" % (tla({t for t in tests if c["tests"][t]["objroot"]}),
                                                             tla({t for t in tests if c["tests"][t]["clonesrc"]})))
        f.write("MCStateless == %s\n" % tla({t for t in tests if c["tests"][t].get("stateless")}))
        f.write("MCSwarm == %s\nMCSpawner == %s\n====\n" % (wfun(lambda w: c["swarm"][w]), wfun(lambda w: c["spawner"][w])))
    with open(os.path.join(work, name + ".cfg"), "w") as f:
        f.write("SPECIFICATION Spec\nCONSTANTS\n Workers <- MCWorkers\n Tests <- MCTests\n Gets <- MCGets\n Sets <- MCSets\n"
                " Unsets <- MCUnsets\n ObjRoots <- MCObjRoots\n CloneSrcs <- MCCloneSrcs\n Stateless <- MCStateless\n Swarm <- MCSwarm\n Spawner <- MCSpawner\n"
                "POSTCONDITION Accepted\nCHECK_DEADLOCK FALSE\n")


def norm_event(e):
    out = {"a": e["a"], "w": e["w"], "t": e.get("t", "-"), "u": int(e.get("u", 0)), "s": e.get("s", "-"),
           "req": [r for r in e.get("req", []) if producible(r)], "found": bool(e.get("found", False)),
           "gets": [{"s": "%s:%s" % (g["o"], g["s"]), "src": list(g["src"]), "perm": bool(g["perm"])}
                    for g in e.get("gets", []) if g["s"] not in ROOTISH],
           "own": bool(e.get("own", True)), "srcw": list(e.get("srcw", [])), "exc": e.get("exc", "-"),
           "scope": str(e.get("scope", "") or "").split(), "missing": bool(e.get("missing", False))}
    return out


def norm_trace(res, inst, settings):
    """settings: dict of per-trace monitor settings derived from the job"""
    c = inst.const
    # the status a node records for an execution may differ from the reported one (a PASS slower than usual is recorded as WARN,
    # plugins/runner.py run_test_node): the retry / stop rules and the sources work on the recorded status
    log = res["events"]
    recorded = {}
    for i, e in enumerate(log):
        if e["a"] == "endrun" and e.get("s") == "PASS":
            for f in log[i + 1:]:
                if f["a"] == "traversed" and f["w"] == e["w"] and f.get("x") == e.get("t"):
                    if f.get("res") and f["res"][-1] == "WARN":
                        recorded[i] = "WARN"
                    break
                if f["w"] == e["w"] and f["a"] in ("start", "prestart", "bounce", "end"):
                    break
    # a start directly preceded by the same worker's scan that did not find the produced states: run because a state is missing
    missing = set()
    last = {}
    for i, e in enumerate(log):
        if e["a"] in SEAM:
            if e["a"] == "start" and last.get(e["w"]) is not None and last[e["w"]]["a"] == "scan" and not last[e["w"]].get("found"):
                missing.add(i)
            last[e["w"]] = e
    evs = [norm_event(dict(e, s=recorded[i]) if i in recorded else (dict(e, missing=True) if i in missing else e)) for i, e in enumerate(log) if e["a"] in SEAM]
    job = res["job"]
    rp = dict(inst.params)
    if inst.lazy:
        # (an eagerly parsed graph was composed before the run: run parameters do not reach its nodes)
        rp.update(job.get("run_params", {}))
    replaying = bool(rp.get("replay"))
    try:
        maxtries = int(float(rp.get("max_tries", 2 if replaying else 1)))
    except ValueError:
        maxtries = 1
    leaves = sorted({lf for fe in c["flat"].values() for lf in fe["leaves"] if c["tests"][lf]["copies"] and not c["tests"][lf]["clonesrc"]})
    selected = sorted(c["tests"])
    final = []
    for t, per in res.get("results", {}).items():
        for w, r in per.items():
            final.append({"t": t, "w": w, "res": list(r)})
    tr = {
        "events": evs,
        "pool": {k: sorted(v) for k, v in job.get("store", {}).items()},
        "poolscope": str(rp.get("pool_scope", "own swarm cluster shared")).split(),
        "maxtries": maxtries,
        "maxconc": int(float(rp.get("max_concurrent_tries", maxtries))) if str(rp.get("max_concurrent_tries", "1")).lstrip("-").replace(".", "").isdigit() else maxtries,
        "rerun": [s.upper() for s in str(rp.get("rerun_status", "")).replace(",", " ").split()] or (["FAIL", "ERROR", "WARN"] if replaying else ALL_STATUSES),
        "stop": [s.upper() for s in str(rp.get("stop_status", "")).replace(",", " ").split()],
        "dry": str(rp.get("dry_run", "no")) == "yes",
        "overrun": bool(settings.get("overrun", False)),
        "poolfilter": str(rp.get("pool_filter", "reuse")),
        "outcome": res["outcome"].split(":")[0],
        "lost": bool(settings.get("lost", False)),
        "final": final,
        "mustrun": leaves,
        "selected": selected,
        "prev": settings.get("prev", []),
        "complete": res["outcome"] == "done",
        "allok": res.get("all_ok") is True,
        "norerunrule": bool(settings.get("norerunrule", False)),
    }
    return tr


def run_monitor(work, inst, traces, name="MC_Obs", timeout=3000):
    """validate normalised traces; returns (TLCResult, failures list of dict(prop, trace, event, detail), consumed_ok)"""
    C.stage_specs(work, os.path.join(C.SPECS, "traversal"))
    write_obs_model(work, inst, name)
    path = os.path.join(work, name + "_traces.json")
    with open(path, "w") as f:
        json.dump(traces, f)
    r = C.run_tlc(work, name, name + ".cfg", workers=1, env={"TRACE_FILE": path}, timeout=timeout, heap="8g")
    m = re.search(r'<<\s*"MONITOR-FAILURES",\s*(.*?)\s*>>\s*<<\s*"CONSUMED"', r.out, re.S)
    if not m:
        raise C.MachineryError("monitor produced no verdict: %s" % "\n".join(r.out.splitlines()[-25:]))
    fails = []
    val = parse(m.group(1))
    for f in val:
        prop, tri, li, detail = f
        fails.append({"prop": str(prop), "trace": int(tri) - 1, "event": int(li), "detail": C.tlaval.plain(detail)})
    m2 = re.search(r'<<\s*"CONSUMED",\s*(\d+),\s*(\d+)\s*>>', r.out)
    consumed_ok = bool(m2) and m2.group(1) == m2.group(2)
    if not consumed_ok:
        raise C.MachineryError("monitor did not consume all events (%s): %s" % (m2.groups() if m2 else None, "\n".join(r.errors[:5])))
    return r, fails
