"""Instances (selection x workers x parameters) parsed by the real parser, constants extracted from the
eager parse, and a fork pool that runs many environment schedules on pristine copies of the graph."""
import json
import os
import re
import sys
import time
import traceback

from .. import common as C
from . import harness as H


class Instance:
    def __init__(self, name, restr, nets, params=None, lazy=True, vm_strs=None, suite=None):
        self.name, self.restr, self.nets, self.lazy = name, restr, nets, lazy
        self.suite = suite        # a generated suite (vf.parse.gensuite.Suite) or None for the shipped one
        self.params = dict(params or {})
        self.vm_strs = dict(vm_strs or H.VM_STRS)
        self.ids = {"ROOT": "t0"}
        self.graph = None
        self.const = None
        self.parse_s = 0.0

    # restr is in flat form "normal..tutorial1,normal..tutorial3"; the eager parser takes the multi-line form
    def eager_restr(self):
        parts = self.restr.split(",")
        first = [p.split("..")[0] for p in parts]
        if len(set(first)) != 1:
            return "only %s\n" % self.restr      # tests of several test sets: one restriction line
        return "only %s\nonly %s\n" % (first[0], ",".join(p.split("..", 1)[1] for p in parts))

    def prepare(self):
        from ..parse import gensuite as G
        with G.active(self.suite):
            return self._prepare()

    def _prepare(self):
        """parse with the current working tree (parent process, once)"""
        from avocado_i2n.cartgraph import TestGraph
        t0 = time.time()
        p = dict(self.params)
        p["nets"] = self.nets
        # constants from the eager parse, one worker at a time: a worker whose restrictions exclude the selection
        # cannot be parsed eagerly at all (lazy expansion marks it incompatible instead)
        self.const = None
        for net in self.nets.split():
            pw = dict(p)
            pw["nets"] = net
            try:
                eager = TestGraph.parse_object_trees(None, self.eager_restr(), "", self.vm_strs, pw)
            except Exception as ex:  # noqa: the parser raises several types for an empty selection
                self.incompatible = getattr(self, "incompatible", []) + [net]
                continue
            c = extract_constants(eager, self)
            if self.const is None:
                self.const = c
            else:
                merge_constants(self.const, c)
        if self.const is None:
            raise C.MachineryError("instance %s: no worker can parse the selection" % self.name)
        allw = TestGraph.parse_workers(dict(p))
        # own restrictions of a worker as the configuration gives them (an eager parse adds the vm restrictions of the run)
        self.const["restricted"] = [w.id for w in allw if len(w.restrs) > 0]
        for w in allw:
            if w.id not in self.const["workers"]:
                self.const["workers"].append(w.id)
                self.const["swarm"][w.id] = w.swarm_id
                self.const["spawner"][w.id] = w.params.get("nets_spawner", "")
        if self.lazy:
            g = TestGraph()
            g.restrs.update(self.vm_strs)
            flats = TestGraph.parse_flat_nodes(self.restr, dict(self.params))
            for n in flats:
                n.update_restrs(self.vm_strs)
            g.new_nodes(flats)
            g.parse_shared_root_from_object_roots(dict(self.params))
            g.new_workers(TestGraph.parse_workers(dict(p)))
            self.graph = g
        else:
            # a second eager parse: the first one was only read, but traversal needs run_swarms of its own workers
            self.graph = TestGraph.parse_object_trees(None, self.eager_restr(), "", self.vm_strs, dict(p))
        self.parse_s = time.time() - t0
        return self


def tid(ids, key):
    if key not in ids:
        ids[key] = "t%d" % len(ids)
    return ids[key]


def extract_constants(eager, inst):
    """project the eagerly parsed graph (all workers) onto the constants of the TLA+ specs"""
    from avocado_i2n.cartgraph import TestGraph
    ids = inst.ids
    workers = sorted(eager.workers.values(), key=lambda x: x.params["name"])
    wids = [w.id for w in workers]
    c = {"workers": wids, "tests": {}, "flat": {}, "objroot_vm": {}}
    comp = [n for n in eager.nodes if not n.is_flat()]
    for n in comp:
        if n.is_shared_root():
            continue
        t = tid(ids, H.cls_name(n))
        e = c["tests"].setdefault(t, {"name": H.cls_name(n), "setup": {}, "gets": [], "sets": [], "unsets": [], "removable": False,
                                      "objroot": False, "clonesrc": False, "copies": [], "producer_of": [], "perm": []})
        w = n.params.get("nets", "")
        e["copies"].append(w)
        for p, objs in n.setup_nodes.items():
            pk = "t0" if p.is_shared_root() else tid(ids, H.cls_name(p))
            e["setup"].setdefault(pk, sorted({o.long_suffix for o in objs}))
        e["gets"] = sorted({"%s:%s" % (o, s) for o, s, _, _ in H.node_states(n, "get")})
        e["sets"] = sorted({"%s:%s" % (o, s) for o, s, _, _ in H.node_states(n, "set")})
        e["perm"] = sorted({o for o, s, _, ob in H.node_states(n, "get") if ob.is_permanent()})
        us = set()
        for o in n.objects:
            op = o.object_typed_params(n.params)
            if op.get("unset_mode_images", op["unset_mode"])[0] == "f" or op.get("unset_mode_vms", op["unset_mode"])[0] == "f":
                e["removable"] = True
            if o.key != "nets" and op.get("set_state") and op.get("unset_mode", "ri")[0] == "f":
                us.add("%s_%s:%s" % (o.key, o.long_suffix, op.get("set_state")))
        e["unsets"] = sorted(us)
        e["objroot"] = bool(n.is_object_root())
        if e["objroot"]:
            c["objroot_vm"][n.params["vms"]] = t
        e["clonesrc"] = len(n.cloned_nodes) > 0
        e["stateless"] = len(n.get_stateful_objects()) == 0
        e.setdefault("long_prefix", n.long_prefix)
        e["timeout"] = float(n.params.get_numeric("test_timeout", 3600))
    flats = TestGraph.parse_flat_nodes(inst.restr, dict(inst.params))
    for f in flats:
        ft = tid(ids, "FLAT:" + f.params["name"])
        leaves = sorted({tid(ids, H.cls_name(n)) for n in comp if not n.is_shared_root()
                         and n.params["name"].startswith(f.params["name"] + ".vms.")})
        c["flat"][ft] = {"name": f.params["name"], "leaves": leaves}
        for lf in leaves:
            c["tests"][lf]["setup"].setdefault(ft, [])
    # closure per flat node: everything reachable upwards from its leaves
    for ft, fe in c["flat"].items():
        clo, todo = set(), list(fe["leaves"])
        while todo:
            x = todo.pop()
            if x in clo or x == "t0" or x in c["flat"]:
                continue
            clo.add(x)
            todo.extend(c["tests"][x]["setup"])
        fe["closure"] = sorted(clo)
    c["restricted"] = [w.id for w in workers if len(w.restrs) > 0]
    c["swarm"] = {w.id: w.swarm_id for w in workers}
    c["spawner"] = {w.id: w.params.get("nets_spawner", "") for w in workers}
    return c


def merge_constants(a, b):
    for w in b["workers"]:
        if w not in a["workers"]:
            a["workers"].append(w)
    for t, e in b["tests"].items():
        if t in a["tests"]:
            for w in e["copies"]:
                if w not in a["tests"][t]["copies"]:
                    a["tests"][t]["copies"].append(w)
            for k, x in e["setup"].items():
                a["tests"][t]["setup"].setdefault(k, x)
        else:
            a["tests"][t] = e
    for ft, fe in b["flat"].items():
        if ft in a["flat"]:
            a["flat"][ft]["leaves"] = sorted(set(a["flat"][ft]["leaves"]) | set(fe["leaves"]))
            a["flat"][ft]["closure"] = sorted(set(a["flat"][ft]["closure"]) | set(fe["closure"]))
        else:
            a["flat"][ft] = fe
    a["objroot_vm"].update(b["objroot_vm"])
    a["restricted"] = sorted(set(a["restricted"]) | set(b["restricted"]))
    a["swarm"].update(b["swarm"])
    a["spawner"].update(b["spawner"])


def _child(inst, job, outpath):
    try:
        sched = H.Schedule(**job["sched"])
        store = {k: {tuple(x.split(":", 1)) for x in v} for k, v in job.get("store", {}).items()}
        rp = dict(inst.params)
        rp.update(job.get("run_params", {}))
        res = H.run_traversal(inst.graph, inst.ids, store, sched, rp, previous_results=job.get("previous"), cap=job.get("cap", 30000),
                              eager_objroots=inst.const["objroot_vm"])
        res["job"] = job
        res["ids"] = dict(inst.ids)
        if job.get("snapshot") and getattr(inst, "parse_rec", None) is not None:
            from ..parse import graphsnap as S
            snap = S.snapshot(inst.graph, inst.parse_rec)
            snap["unexpanded"] = sorted(n.params["name"] for n in inst.graph.nodes
                                        if n.is_flat() and not n.is_shared_root() and not n.is_unrolled())
            res["snapshot"] = snap
        with open(outpath, "w") as f:
            json.dump(res, f, default=str)
        os._exit(0)
    except BaseException:
        try:
            with open(outpath, "w") as f:
                json.dump({"harness_error": traceback.format_exc(), "job": job}, f)
        finally:
            os._exit(3)


def run_jobs(inst, jobs, workdir, par=None, timeout=300):
    from ..parse import gensuite as G
    with G.active(getattr(inst, "suite", None)):
        return _run_jobs(inst, jobs, workdir, par, timeout)


def _run_jobs(inst, jobs, workdir, par=None, timeout=300):
    """fork one child per job from the pristine parsed instance; returns results in job order"""
    par = par or C.NCPU
    os.makedirs(workdir, exist_ok=True)
    pending = list(enumerate(jobs))
    running = {}
    results = [None] * len(jobs)
    sys.stdout.flush()
    while pending or running:
        while pending and len(running) < par:
            i, job = pending.pop(0)
            out = os.path.join(workdir, "job_%d.json" % i)
            pid = os.fork()
            if pid == 0:
                _child(inst, job, out)
            running[pid] = (i, out, time.time())
        pid, status = os.waitpid(-1, os.WNOHANG)
        if pid == 0:
            now = time.time()
            for p, (i, out, t0) in list(running.items()):
                if now - t0 > timeout:
                    try:
                        os.kill(p, 9)
                    except OSError:
                        pass
            time.sleep(0.01)
            continue
        if pid in running:
            i, out, t0 = running.pop(pid)
            try:
                with open(out) as f:
                    results[i] = json.load(f)
                os.unlink(out)
            except Exception:
                results[i] = {"harness_error": "child %d produced no result (status %s, %.0fs)" % (i, status, time.time() - t0), "job": jobs[i]}
    return results
