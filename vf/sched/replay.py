"""Spec -> code for the traversal: behaviours of the algorithm model (tlc -simulate on Traversal.tla) are driven through the
REAL traverse_object_trees.  The conductor owns every await point of the code - the end of each fake test process and the
back-off sleep of the loop (avocado_i2n.cartgraph.graph.asyncio.sleep is proxied) - and resolves them in exactly the
order of TLC's Wake / PreEnd / RunEnd actions with TLC's statuses.  The steps the real code records must then be, action
for action, the behaviour TLC chose."""
import asyncio
import json
import os
import re
from unittest import mock

from .. import common as C
from . import harness as H
from . import algomodel as A


def script_of(beh):
    """[(worker, kind, status)] resumptions of a TLC behaviour, in order; kind in wake / preend / endrun"""
    out = []
    prev = beh[0][1]
    for action, st in beh[1:]:
        if action in ("Wake", "PreEnd", "RunEnd", "EndLost", "LostResume"):
            moved = [w for w in st["pc"] if st["pc"][w] != prev["pc"][w] or st["asleep"][w] != prev["asleep"][w]]
            w = str(moved[0]) if moved else None
            if action == "Wake":
                out.append((w, "wake", None))
            elif action == "RunEnd":
                t = str(prev["path"][w][-1])
                out.append((w, "endrun", str(st["results"][t][w][-1])))
            elif action == "PreEnd":
                t = str(prev["path"][w][-1])
                out.append((w, "preend", "FAIL" if t in {str(x) for x in st["preFailed"]} - {str(x) for x in prev["preFailed"]} else "PASS"))
        prev = st
    return out


def model_steps(beh):
    """the recorded-event view of a TLC behaviour: (worker, event name, node) per non-silent action"""
    names = {"Begin": "begin", "End": "end", "PickFromRoot": "pickchild", "PostDownPick": "pickchild", "PickParent": "pickparent", "Expand": "expand",
             "Bounce": "bounce", "Skip": "skip", "PostUp": "dropparent", "Postpone": "postpone", "Reverse": "reverse", "PreEnd": "preend", "RunEnd": "endrun",
             "MainStart": "start"}
    out = []
    prev = beh[0][1]
    for action, st in beh[1:]:
        if action in ("Wake", "LostResume", "Initial"):
            prev = st
            continue
        moved = [w for w in st["pc"] if st["pc"][w] != prev["pc"][w] or st["path"][w] != prev["path"][w] or st["nb"][w] != prev["nb"][w]]
        w = str(st["turn"]) if str(st["turn"]) != "none" else (str(moved[0]) if moved else "?")
        if action == "RunStart":
            ev = "prestart" if str(st["pc"][w]) == "prerunning" else "start"
        else:
            ev = names.get(action, action)
        out.append((w, ev))
        prev = st
    return out


def run_scripted(inst, pool, script, cap=20000):
    """drive the real traversal with the resumption script; returns (events, problems)"""
    from avocado_i2n.cartgraph import TestWorker
    from avocado_i2n.cartgraph import graph as graphmod
    from avocado_i2n.cartgraph import node as nodemod
    from avocado_i2n.plugins.runner import TestRunner
    graph = inst.graph
    workers = sorted(graph.workers.values(), key=lambda x: x.params["name"])
    rec = H.Recorder(inst.ids, [w.id for w in workers], cap=cap)
    rec.objroot_class = dict(inst.const["objroot_vm"])
    store = {k: {tuple(x.split(":", 1)) for x in v} for k, v in pool.items()}
    pending = {}       # worker -> (kind, future)
    task_worker = {}
    problems = []

    class Sched:
        def outcome(self, cls, pre, w, k):
            return "PASS", 0.0

    env = H.Env(rec, store, Sched())

    async def gate(w, kind):
        fut = asyncio.get_event_loop().create_future()
        pending[w] = (kind, fut)
        return await fut

    async def rtt(self, node):
        rec.runs += 1
        loop = asyncio.get_event_loop()
        worker = node.started_worker
        w = worker.id
        name = node.params["name"]
        pre = node.prefix.startswith("0") and ".noop." in name
        uid = node.id_test.uid
        cls = rec.objroot_class.get(node.params["vms"], "?") if pre else rec.tid(node)
        rec.ev(w, "prestart" if pre else "start", t=cls, uid=uid)
        status = await gate(w, "preend" if pre else "endrun")
        if status in ("PASS", "WARN"):
            for okey, s, _, _ in H.node_states(node, "set"):
                env.pool(w).add((okey, s))
        rec.ev(w, "preend" if pre else "endrun", t=cls, uid=uid, s=status)
        tid = type("M", (), {"uid": uid, "name": name})()
        self.job.result.tests.append({"name": tid, "status": status, "time_elapsed": 1.0, "logdir": "."})

    class AsyncioProxy:
        def __getattr__(self, k):
            return getattr(asyncio, k)

        @staticmethod
        async def sleep(t):
            w = task_worker.get(asyncio.current_task())
            if w is None:
                return
            await gate(w, "wake")

    runner = TestRunner()
    job = mock.MagicMock()
    job.result = mock.MagicMock()
    job.result.tests = []
    job.config = {}
    runner.job = job
    runner.previous_results = []
    graph.runner = runner

    def get_session(self):
        s = mock.MagicMock()
        s.wid = self.id
        return s

    async def worker_task(w):
        task_worker[asyncio.current_task()] = w.id
        await graph.traverse_object_trees(w, dict(inst.params))

    async def conductor(tasks):
        async def settle(w):
            for _ in range(2000):
                if w in pending or task_done(w):
                    return
                await asyncio.sleep(0)

        def task_done(w):
            return all(t.done() for t in tasks if task_worker.get(t) == w) and any(task_worker.get(t) == w for t in tasks)

        # let every coroutine run to its first await
        for _ in range(50):
            await asyncio.sleep(0)
        for k, (w, kind, status) in enumerate(script):
            await settle(w)
            if w not in pending:
                problems.append("step %d: the model resumes %s (%s) but the code has no pending await for it" % (k, w, kind))
                break
            pk, fut = pending.pop(w)
            if pk != kind:
                problems.append("step %d: the model resumes %s with %s but the code awaits %s" % (k, w, kind, pk))
                fut.set_result("PASS")
                break
            fut.set_result(status)
            await settle(w)
        # script exhausted (or diverged): finish the run freely
        for _ in range(100000):
            if all(t.done() for t in tasks):
                break
            if pending:
                w = sorted(pending)[0]
                pk, fut = pending.pop(w)
                fut.set_result("PASS")
            await asyncio.sleep(0)

    rec.install()
    try:
        with mock.patch.object(nodemod, "door", env), mock.patch.object(TestRunner, "run_test_task", rtt), \
                mock.patch.object(TestWorker, "get_session", get_session), mock.patch.object(graphmod, "asyncio", AsyncioProxy()):
            loop = asyncio.new_event_loop()
            asyncio.set_event_loop(loop)

            async def main():
                tasks = [asyncio.ensure_future(worker_task(w)) for w in workers]
                await asyncio.sleep(0)
                cond = asyncio.ensure_future(conductor(tasks))
                await cond
                res = await asyncio.gather(*tasks, return_exceptions=True)
                for r in res:
                    if isinstance(r, BaseException) and not isinstance(r, H.Watchdog):
                        problems.append("traversal raised %s: %s" % (type(r).__name__, str(r)[:200]))

            try:
                loop.run_until_complete(asyncio.wait_for(main(), 120))
            except H.Watchdog:
                problems.append("watchdog")
            except asyncio.TimeoutError:
                problems.append("the scripted run did not finish (wall clock guard)")
            loop.close()
    finally:
        rec.uninstall()
    return rec.log, problems


def _child(args):
    inst, pool, script, steps = args
    events, problems = run_scripted(inst, pool, script)
    res = {"events": events, "job": {"store": {k: sorted(v) for k, v in pool.items()}, "run_params": {}}}
    got = [(e["w"], e["a"]) for e in A.algo_events(res)]
    exp = [tuple(x) for x in steps]
    n = min(len(got), len(exp))
    first = next((i for i in range(n) if got[i] != exp[i]), None)
    return {"problems": problems, "steps_model": len(exp), "steps_code": len(got), "first_difference": first,
            "at": None if first is None else {"model": exp[first], "code": got[first], "before": got[max(0, first - 3):first]}}


def replay_behaviours(work, inst, num, depth=500, seed=1, maxbounce=2, pools=None, statuses=("PASS", "FAIL")):
    """simulate the algorithm model and drive every behaviour through the real code (forked child per behaviour)"""
    from ..props.c15 import fork_map
    mc = A.model_constants(inst)
    C.stage_specs(work, os.path.join(C.SPECS, "traversal"))
    A.write_mc(work, "MC_sim", mc, pools or A.shared_pools(mc, 2), "Spec", statuses, maxbounce=maxbounce, lazy=inst.lazy, constraint="BounceBound",
               useprio=not inst.lazy)
    r, behs = C.simulate(work, "MC_sim", "MC_sim.cfg", num, depth, seed, timeout=900, stall=30)
    items = []
    for beh in behs:
        if len(beh) < 5:
            continue
        pool = {str(k): sorted(str(s) for s in v) for k, v in beh[0][1]["pool"].items() if v}
        items.append((inst, pool, script_of(beh), model_steps(beh)))
    results = fork_map_inherit(_child, items)
    return r, behs, results


def fork_map_inherit(fn, items, par=None):
    """like fork_map but the items are inherited by the children (parsed graphs cannot be pickled)"""
    par = par or C.NCPU
    res = [None] * len(items)
    pending, running = list(range(len(items))), {}
    while pending or running:
        while pending and len(running) < par:
            i = pending.pop(0)
            r, w = os.pipe()
            pid = os.fork()
            if pid == 0:
                os.close(r)
                try:
                    os.write(w, json.dumps(fn(items[i]), default=str).encode())
                except BaseException:
                    import traceback
                    os.write(w, json.dumps({"harness_error": traceback.format_exc()[-800:]}).encode())
                finally:
                    os._exit(0)
            os.close(w)
            running[pid] = (i, r)
        pid, _ = os.wait()
        if pid in running:
            i, r = running.pop(pid)
            data = b""
            while True:
                chunk = os.read(r, 65536)
                if not chunk:
                    break
                data += chunk
            os.close(r)
            res[i] = json.loads(data.decode()) if data else {"harness_error": "no output"}
    return res
