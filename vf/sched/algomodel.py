"""The algorithm model specs/traversal/Traversal.tla: constants from a real parse, exhaustive exploration of
small instances, and fine-grained validation of recorded traces of the real code."""
import itertools
import json
import os
import re
import subprocess

from .. import common as C
from ..tlaval import tla
from . import monitor as M


def model_constants(inst):
    c = inst.const
    comp = sorted(c["tests"], key=lambda t: int(t[1:]))
    # an eagerly parsed graph has no flat nodes at all
    flats = sorted(c["flat"], key=lambda t: int(t[1:])) if inst.lazy else []
    tests = ["t0"] + comp + flats
    setup = {"t0": set()}
    for t in comp:
        setup[t] = {x for x in c["tests"][t]["setup"] if x == "t0" or x in c["tests"] or x in flats}
    for f in flats:
        setup[f] = {"t0"}
    gets = {t: {s for s in c["tests"][t]["gets"] if M.producible(s)} if t in c["tests"] else set() for t in tests}
    sets = {t: {s for s in c["tests"][t]["sets"] if M.producible(s)} if t in c["tests"] else set() for t in tests}
    produced = set().union(*sets.values()) if sets else set()
    gets = {t: {s for s in g if s in produced} for t, g in gets.items()}   # externally provided states are taken as given
    unsets = {t: set(c["tests"][t]["unsets"]) if t in c["tests"] else set() for t in tests}
    # static pick priority (the code's own comparator over the parse prefixes); only meaningful for eagerly parsed graphs
    prio = {t: 0 for t in tests}
    try:
        from functools import cmp_to_key
        from avocado_i2n.cartgraph import TestNode
        keyed = [t for t in comp if c["tests"][t].get("long_prefix")]
        ranked = sorted(keyed, key=cmp_to_key(lambda a, b: TestNode.prefix_priority(c["tests"][a]["long_prefix"], c["tests"][b]["long_prefix"])))
        prio.update({t: i + 1 for i, t in enumerate(ranked)})
    except Exception:
        pass
    return {
        "prio": prio,
        "tests": tests, "flat": flats, "setup": setup, "gets": gets, "sets": sets, "unsets": unsets,
        "objroots": {t for t in comp if c["tests"][t]["objroot"]},
        "stateful": {t for t in comp if not c["tests"][t].get("stateless")},
        "removable": {t for t in comp if c["tests"][t]["removable"]},
        "closure": {f: set(c["flat"][f]["closure"]) for f in flats},
        "incompatible": list(getattr(inst, "incompatible", [])),
        "swarm": dict(c["swarm"]), "spawner": dict(c["spawner"]),
        "neverrun": {t for t in comp if any(x.split(":", 1)[1] == "install" and x.split(":", 1)[0] in c["tests"][t].get("perm", []) for x in c["tests"][t]["sets"])},
        "workers": list(c["workers"]), "unrestricted": [w for w in c["workers"] if w not in c["restricted"]],
        "states": sorted(produced),
    }


def fun(dom, f, var="t", domname="MCTests"):
    return "[%s \\in %s |-> " % (var, domname) + " ".join(("CASE" if i == 0 else "[]") + " %s = %s -> %s" % (var, tla(t), f(t)) for i, t in enumerate(dom)) + "]"


OWN_UNEXPLORED = True     # what the code under check does (see Traversal.tla OwnUnexplored)


def write_mc(work, name, mc, pools, spec, statuses, maxtries=1, maxconc=1, rerun=None, stop=(), maxbounce=1, lazy=True, invariants=(),
             constraint=None, postcondition=None, extra_cfg="", dry=False, useprio=False, ownunexplored=None, poolscope=("own", "swarm", "cluster", "shared")):
    """pools: list of dict loc -> set(states)"""
    ws = mc["workers"]
    with open(os.path.join(work, name + ".tla"), "w") as f:
        f.write("---- MODULE %s ----\nEXTENDS Traversal\n" % name)
        f.write("MCW == %s\nMCWOrder == %s\nMCTests == %s\nMCFlat == %s\n" % (tla(set(ws)), tla(list(ws)), tla(set(mc["tests"])), tla(set(mc["flat"]))))
        f.write("MCObjRoots == %s\nMCStateful == %s\nMCRemovable == %s\n" % (tla(mc["objroots"]), tla(mc["stateful"]), tla(mc["removable"])))
        for key, const in (("setup", "MCSetup"), ("gets", "MCGets"), ("sets", "MCSets"), ("unsets", "MCUnsetSets")):
            f.write("%s == %s\n" % (const, fun(mc["tests"], lambda t: tla(mc[key][t]))))
        f.write("MCClosure == %s\n" % (fun(mc["flat"], lambda t: tla(mc["closure"][t]), "f", "MCFlat") if mc["flat"] else "<<>>"))
        f.write("MCUnrestricted == %s\n" % tla(set(mc["unrestricted"])))
        f.write("MCPrio == %s\n" % fun(mc["tests"], lambda t: str(mc["prio"].get(t, 0))))
        f.write("MCIncompatible == %s\n" % tla(set(mc.get("incompatible", []))))
        f.write("MCNeverRun == %s\n" % tla(set(mc.get("neverrun", set()))))
        f.write("MCSpawner == %s\nMCSwarm == %s\nMCPoolScope == %s\n" % (fun(ws, lambda w: tla(mc["spawner"].get(w, "")), "w", "MCW"),
                                                                        fun(ws, lambda w: tla(mc["swarm"].get(w, "")), "w", "MCW"), tla(set(poolscope))))
        locs = ["shared"] + ws
        f.write("MCInitPools == {%s}\n" % ",\n  ".join(
            "[x \\in MCW \\cup {\"shared\"} |-> " + " ".join(("CASE" if i == 0 else "[]") + " x = %s -> %s" % (tla(x), tla(set(p.get(x, ()))))
                                                             for i, x in enumerate(locs)) + "]" for p in pools))
        f.write("MCStatuses == %s\nMCRerun == %s\nMCStop == %s\n====\n" % (tla(set(statuses)), tla(set(rerun or M.ALL_STATUSES)), tla(set(stop))))
    with open(os.path.join(work, name + ".cfg"), "w") as f:
        f.write("SPECIFICATION %s\nCONSTANTS\n W <- MCW\n WOrder <- MCWOrder\n Tests <- MCTests\n Root = \"t0\"\n FlatLeaves <- MCFlat\n ObjRoots <- MCObjRoots\n"
                " Stateful <- MCStateful\n Setup <- MCSetup\n Gets <- MCGets\n Sets <- MCSets\n UnsetSets <- MCUnsetSets\n Removable <- MCRemovable\n"
                " Closure <- MCClosure\n Unrestricted <- MCUnrestricted\n Incompatible <- MCIncompatible\n InitPools <- MCInitPools\n Statuses <- MCStatuses\n MaxTries = %d\n MaxConc = %d\n"
                " RerunSet <- MCRerun\n StopSet <- MCStop\n MaxBounce = %d\n Lazy = %s\n DryRun = %s\n Prio <- MCPrio\n UsePrio = %s\n OwnUnexplored = %s\n Spawner <- MCSpawner\n Swarm <- MCSwarm\n PoolScope <- MCPoolScope\n NeverRun <- MCNeverRun\n"
                % (spec, maxtries, maxconc, maxbounce, "TRUE" if lazy else "FALSE", "TRUE" if dry else "FALSE", "TRUE" if useprio else "FALSE",
                   "TRUE" if (OWN_UNEXPLORED if ownunexplored is None else ownunexplored) else "FALSE"))
        for inv in invariants:
            f.write("INVARIANT %s\n" % inv)
        if constraint:
            f.write("CONSTRAINT %s\n" % constraint)
        if postcondition:
            f.write("POSTCONDITION %s\n" % postcondition)
        f.write("CHECK_DEADLOCK FALSE\n" + extra_cfg)


def shared_pools(mc, max_present=None):
    """every subset of the producible states placed in the shared pool"""
    st = mc["states"]
    out = []
    for k in range(len(st) + 1):
        if max_present is not None and k > max_present:
            break
        for sub in itertools.combinations(st, k):
            out.append({"shared": set(sub)})
    return out


def residue_pools(mc, max_present=2):
    """placements incl. a state present only in one worker's own pool (what an interrupted run leaves)"""
    st, ws = mc["states"], mc["workers"]
    out = []
    for k in range(1, max_present + 1):
        for sub in itertools.combinations(st, k):
            for locs in itertools.product(["shared"] + ws, repeat=k):
                p = {}
                for s, loc in zip(sub, locs):
                    p.setdefault(loc, set()).add(s)
                out.append(p)
    return out


SAFETY = ["TypeOK", "PathContinuous", "NoC01", "NoC03", "NoC04", "NoC05", "NoC10", "Completed"]


def explore(work, inst, name, pools, statuses=("PASS", "FAIL"), maxbounce=1, lazy=None, maxtries=1, invariants=SAFETY, timeout=3000, ownunexplored=None, live=False, poolscope=("own", "swarm", "cluster", "shared")):
    C.stage_specs(work, os.path.join(C.SPECS, "traversal"))
    mc = model_constants(inst)
    write_mc(work, name, mc, pools, "LiveSpec" if live else "Spec", statuses, extra_cfg="PROPERTY NoSpin\n" if live else "", maxtries=maxtries, maxconc=max(maxtries, 1), maxbounce=maxbounce,
             lazy=inst.lazy if lazy is None else lazy,
             invariants=invariants, constraint="BounceBound", ownunexplored=ownunexplored, poolscope=poolscope)
    return C.run_tlc(work, name, name + ".cfg", timeout=timeout, heap="24g"), mc


# ---------------------------------------------------------------- fine-grained trace validation

def algo_events(res):
    """recorded steps -> the events Traversal.tla's actions consume"""
    log = res["events"]
    keep = []
    # the status a node records for an execution may differ from the reported one (PASS slower than usual becomes WARN):
    # the algorithm continues with the recorded status, found in the node's results right after the traversal returned
    recorded = {}
    for i, e in enumerate(log):
        if e["a"] == "endrun":
            for f in log[i + 1:]:
                if f["a"] == "traversed" and f["w"] == e["w"] and f.get("x") == e.get("t"):
                    if f.get("res"):
                        recorded[i] = f["res"][-1] if f["res"][-1] != "UNKNOWN" else e.get("s")
                    break
                if f["w"] == e["w"] and f["a"] in ("start", "prestart", "bounce", "end"):
                    break
    for i, e in enumerate(log):
        a = e["a"]
        if a == "endrun" and i in recorded and e.get("s") != "LOST":
            e = dict(e, s=recorded[i])
        if a == "unset":
            # the removal request belongs to the reversal just recorded for the same worker
            for k in range(len(keep) - 1, -1, -1):
                if keep[k]["a"] == "reverse" and keep[k]["w"] == e["w"]:
                    keep[k]["u"] = 1
                    break
            continue
        if a in ("traversed", "expanded", "scan", "sync", "door"):
            continue
        keep.append({"w": e["w"], "a": a, "x": e.get("x", e.get("t", "-")), "y": e.get("y", "-"), "t": e.get("t", e.get("x", "-")),
                     "s": e.get("s", "-"), "u": 0})
    out = []
    for i, e in enumerate(keep):
        if e["a"] == "cready":
            nxt = keep[i + 1] if i + 1 < len(keep) else None
            if nxt and nxt["a"] == "reverse" and nxt["w"] == e["w"] and nxt["x"] == e["x"]:
                continue
            e = dict(e, a="postpone")
        out.append(e)
    return out


def validate_traces(work, inst, results, par=8, timeout=600):
    """returns list of dict(accepted, position, length, next_event) per result"""
    C.stage_specs(work, os.path.join(C.SPECS, "traversal"))
    mc = model_constants(inst)
    procs, verdicts = [], [None] * len(results)
    jobs = []
    for i, res in enumerate(results):
        job = res["job"]
        rp = dict(inst.params)
        if inst.lazy:
            # (an eagerly parsed graph was composed before the run: run parameters do not reach its nodes)
            rp.update(job.get("run_params", {}))
        maxtries = int(float(rp.get("max_tries", 1)))
        name = "MC_T%d" % i
        pool = {k: set(s for s in v if M.producible(s)) for k, v in job.get("store", {}).items()}
        write_mc(work, name, mc, [pool], "TraceSpec", M.ALL_STATUSES + ["LOST"], maxtries=maxtries,
                 maxconc=int(float(rp.get("max_concurrent_tries", max(maxtries, 1)))),
                 rerun=[s.upper() for s in str(rp.get("rerun_status", "")).replace(",", " ").split()] or None,
                 stop=[s.upper() for s in str(rp.get("stop_status", "")).replace(",", " ").split()],
                 maxbounce=10 ** 6, lazy=inst.lazy, constraint="TrackProgress", postcondition="TraceAccepted",
                 dry=str(rp.get("dry_run", "no")) == "yes", poolscope=str(rp.get("pool_scope", "own swarm cluster shared")).split())
        evs = algo_events(res)
        path = os.path.join(work, name + ".ndjson")
        with open(path, "w") as f:
            for e in evs:
                f.write(json.dumps(e) + "\n")
        jobs.append((i, name, path, evs))
    meta = os.path.join(work, "meta_trace")
    running = []

    def launch(job):
        i, name, path, evs = job
        cmd = ["java", "-XX:+UseParallelGC", "-Xmx2g", "-Dtlc2.tool.queue.IStateQueue=StateDeque", "-cp", C.JAVA_CP, "tlc2.TLC", "-workers", "1",
               "-metadir", meta + "_%d" % i, "-noGenerateSpecTE", "-config", name + ".cfg", name + ".tla"]
        e = dict(os.environ, TRACE_FILE=path)
        e.pop("JAVA_TOOL_OPTIONS", None)
        out = open(os.path.join(work, name + ".out"), "w")
        return subprocess.Popen(cmd, cwd=work, env=e, stdout=out, stderr=subprocess.STDOUT), out

    pending = list(jobs)
    while pending or running:
        while pending and len(running) < par:
            job = pending.pop(0)
            pr, out = launch(job)
            running.append((job, pr, out))
        for item in list(running):
            job, pr, out = item
            try:
                pr.wait(timeout=0.2)
            except subprocess.TimeoutExpired:
                continue
            running.remove(item)
            out.close()
            i, name, path, evs = job
            import shutil
            shutil.rmtree(meta + "_%d" % i, ignore_errors=True)
            text = open(os.path.join(work, name + ".out")).read()
            m = re.search(r'<<\s*"TRACE-POSITION",\s*(\d+),\s*(\d+)\s*>>', text)
            if "Parsing or semantic analysis failed" in text or not m:
                verdicts[i] = {"accepted": False, "position": 0, "length": len(evs), "next_event": None, "error": text[-600:]}
                continue
            pos, ln = int(m.group(1)), int(m.group(2))
            acc = pos == ln + 1
            verdicts[i] = {"accepted": acc, "position": pos, "length": ln, "next_event": None if acc or pos > len(evs) else evs[pos - 1],
                           "context": None if acc else evs[max(0, pos - 4):pos]}
            for fn in (name + ".tla", name + ".cfg", name + ".out"):
                if acc:
                    try:
                        os.unlink(os.path.join(work, fn))
                    except OSError:
                        pass
            if acc:
                os.unlink(path)
    return verdicts
