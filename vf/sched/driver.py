"""Common driver of the traversal properties: instances -> schedules on the real code -> TLC monitor -> verdicts."""
import json
import os
import random
import re
import time

from .. import common as C
from . import pool as P
from . import monitor as M
from . import algomodel as A

INSTANCES = {
    # name: (restriction, nets, lazy)
    "tut1x2": ("normal..tutorial1", "net1 net2", True),
    "tut1x2e": ("normal..tutorial1", "net1 net2", False),
    "tut13x2": ("normal..tutorial1,normal..tutorial3", "net1 net2", True),
    "tut13x3": ("normal..tutorial1,normal..tutorial3", "net1 net2 net3", True),
    "guix2": ("leaves..tutorial_gui", "net1 net2", True),
    "guix3e": ("leaves..tutorial_gui", "net1 net2 net3", False),
    "minx2": ("minimal..tutorial1,minimal..tutorial2", "net1 net2", True),
    "tut1x1": ("normal..tutorial1", "net1", True),
    "tut13x2e": ("normal..tutorial1,normal..tutorial3", "net1 net2", False),
    "guix2e": ("leaves..tutorial_gui", "net1 net2", False),
    "getx2": ("leaves..tutorial_get", "net1 net2", True),
    "tut13x4": ("normal..tutorial1,normal..tutorial3", "net1 net2 net3 net4", True),
    "tut3fedx2": ("normal..tutorial3", "net1 net2", True, {"vm1": "only Fedora\n", "vm2": "only Win7\n", "vm3": "only Ubuntu\n"}),
    "getx3": ("leaves..tutorial_get", "net1 net2 net3", True),
    "tut13r": ("normal..tutorial1,normal..tutorial3", "net1 net5", True),          # net5 excludes vm1=CentOS
    "tut13c": ("normal..tutorial1,normal..tutorial3", "cluster1.net6 cluster1.net7 cluster2.net6", True),   # remote spawner, two clusters
    "guic": ("leaves..tutorial_gui", "cluster1.net6 cluster2.net6", True),
    # a producer of a removable state and its dependant both selected as leaves (different workers take them first)
    "guigetx2": ("leaves..tutorial_gui.client_noop,leaves..tutorial_get.explicit_noop", "net1 net2", True),
    "guigetx3": ("leaves..tutorial_gui,leaves..tutorial_get.explicit_noop,leaves..tutorial_get.explicit_clicked", "net1 net2 net3", True),
    # local and remote workers in one run (net variant names of different length)
    "tut13mix": ("normal..tutorial1,normal..tutorial3", "cluster1.net6 net1 net2", True),
    "tut1c": ("normal..tutorial1", "cluster1.net6 cluster1.net7 cluster2.net6 cluster2.net7", True),
}


def make_instance(name, params=None):
    m = re.match(r"^gen(\d+)x(\d+)$", name)
    if m:
        name = "gen:%s:%s" % m.groups()      # the name a replay file records
    if name.startswith("gen:"):
        # "gen:<seed>:<number of workers>": a generated suite (random setup DAG with removable states, vf/parse/gensuite.py), parsed on demand
        from ..parse import gensuite as G, props as PP
        import random as _r
        _, seed, nw = name.split(":")
        suite = G.write(os.path.join(C.BUILD, "gensuites", "s%s" % seed), _r.Random(int(seed)), subset_producers=True, removable=True)
        p = {"test_timeout": 100}
        p.update(params or {})
        inst = P.Instance("gen%sx%s" % (seed, nw), PP.gen_restr(suite), " ".join("net%d" % (i + 1) for i in range(int(nw))), p, lazy=True, suite=suite)
        inst.declared = suite.text
        return inst
    restr, nets, lazy = INSTANCES[name][:3]
    vm_strs = INSTANCES[name][3] if len(INSTANCES[name]) > 3 else None
    p = {"test_timeout": 100}
    p.update(params or {})
    return P.Instance(name, restr, nets, p, lazy=lazy, vm_strs=vm_strs)


def producible_states(inst):
    return sorted({s for t in inst.const["tests"].values() for s in t["sets"] if M.producible(s)})


def random_store(inst, rng, density=0.5):
    """each producible state: absent, or present in one location (shared or a worker's own pool)"""
    store = {}
    locs = ["shared"] + inst.const["workers"]
    for s in producible_states(inst):
        if rng.random() < density:
            store.setdefault(rng.choice(locs), []).append(s)
    return store


def corrupt(trace, rng):
    """binding self-test: damage one recorded field so that a monitor must object; returns (trace, what) or None"""
    import copy
    t = copy.deepcopy(trace)
    starts = [i for i, e in enumerate(t["events"]) if e["a"] == "start" and e["gets"]]
    ends = [i for i, e in enumerate(t["events"]) if e["a"] == "endrun"]
    choice = rng.choice(["drop-end", "drop-source", "dup-start"])
    if choice == "drop-end" and ends:
        del t["events"][rng.choice(ends)]
        return t, "an endrun event removed (execution never ends: pending status / still running)"
    if choice == "dup-start" and starts:
        i = rng.choice(starts)
        t["events"].insert(i, dict(t["events"][i]))
        return t, "a start event duplicated (budget / uid reuse / concurrency)"
    if starts:
        i = rng.choice(starts)
        t["events"][i]["own"] = False
        return t, "own-worker flag of a start cleared"
    return None


class Campaign:
    """collects traces of several instances, validates them, and maps monitor failures to violations"""

    def __init__(self, pid, work, seed):
        self.pid, self.work, self.seed = pid, work, seed
        self.rng = random.Random(seed)
        self.states = self.transitions = self.ntraces = self.nevents = 0
        self.instances = []
        self.samples = []
        self.failures = []       # (inst name, job, failure dict, result)
        self.harness_errors = []
        self.selftest = []
        self.distinct = set()
        self.level = "exploration"
        self.explorations = []
        self.conformance = {"validated": 0, "accepted": 0, "known_region": 0, "diverged": []}

    def run_instance(self, inst, jobs, settings_of=lambda job: {}, props=None, selftest=True):
        t0 = time.time()
        tag = inst.name + ("_replay" if inst.params.get("replay") else "")
        res = P.run_jobs(inst, jobs, os.path.join(self.work, "jobs_" + tag))
        good = []
        for r in res:
            if "harness_error" in r:
                self.harness_errors.append(r["harness_error"][-600:])
            else:
                good.append(r)
        if not good:
            raise C.MachineryError("no schedule of instance %s produced a trace: %s" % (inst.name, self.harness_errors[:1]))
        traces = [M.norm_trace(r, inst, settings_of(r["job"])) for r in good]
        r, fails = M.run_monitor(os.path.join(self.work, "mon_" + tag), inst, traces, name="MC_Obs_" + inst.name)
        self.states += r.distinct
        self.transitions += r.generated
        self.ntraces += len(traces)
        self.nevents += sum(len(t["events"]) for t in traces)
        for t in traces:
            if any(e["a"] == "start" for e in t["events"]):
                self.distinct.add(hash(json.dumps([[e["a"], e["w"], e["t"], e["s"]] for e in t["events"]])))
        for f in fails:
            if props is None or f["prop"] in props:
                self.failures.append((inst, good[f["trace"]], f, traces[f["trace"]]))
        self.instances.append({"instance": tag, "selection": inst.restr, "workers": inst.nets, "lazy": inst.lazy,
                               "test_classes": len(inst.const["tests"]), "schedules": len(good), "parse_s": round(inst.parse_s, 1),
                               "run_and_validate_s": round(time.time() - t0, 1),
                               "outcomes": {o: sum(1 for x in good if x["outcome"].split(":")[0] == o) for o in {x["outcome"].split(":")[0] for x in good}},
                               "executions": sum(1 for x in good for e in x["events"] if e["a"] == "start")})
        if len(self.samples) < 3:
            g = max(good, key=lambda x: len(x["events"]))
            self.samples.append({"instance": inst.name, "initial_pool": g["job"].get("store", {}), "run_params": g["job"].get("run_params", {}),
                                 "seed": g["job"]["sched"].get("seed"),
                                 "executions": [[e["w"], e["a"], e.get("t"), e.get("uid"), e.get("s", "")] for e in g["events"]
                                                if e["a"] in ("start", "endrun", "prestart", "preend", "unset")][:40]})
        # fine-grained conformance: a sample of the recorded executions must be behaviours of the algorithm model
        nconf = getattr(self, "nconf", 4)
        if any(e["clonesrc"] for e in inst.const["tests"].values()):
            nconf = 0      # cloned branches are not part of the algorithm model
        if inst.params.get("replay"):
            nconf = 0      # results of previous jobs are not part of the algorithm model
        if nconf:
            # the algorithm model covers the default reuse scope (whole run)
            # (scopes containing own and shared: the model's scan answers from the own and the shared pool)
            sample = [g for g in good if g["outcome"] == "done"
                      and {"own", "shared"} <= set(str(dict(inst.params, **g["job"].get("run_params", {})).get("pool_scope", "own swarm cluster shared")).split())]
            self.rng.shuffle(sample)
            sample = sample[:nconf]
            ver = A.validate_traces(os.path.join(self.work, "conf_" + tag), inst, sample)
            objroots = {t for t, e in inst.const["tests"].items() if e["objroot"]}
            for g, vd in zip(sample, ver):
                self.conformance["validated"] += 1
                if vd["accepted"]:
                    self.conformance["accepted"] += 1
                    continue
                ne = vd.get("next_event") or {}
                rp = dict(inst.params)
                if inst.lazy:
                    rp.update(g["job"].get("run_params", {}))
                retries = str(rp.get("max_tries", "1")) not in ("1", "0")
                if retries and ({ne.get("x"), ne.get("y"), ne.get("t")} & objroots):
                    self.conformance["known_region"] += 1    # retries of an object creation: the known-findings region
                else:
                    self.conformance["diverged"].append({"instance": inst.name, "position": vd["position"], "of": vd["length"],
                                                         "next_event": ne, "error": (vd.get("error") or "")[-200:], "job": g["job"]})
        if selftest:
            # the binding is real: a damaged copy of an accepted trace must be objected to
            clean = [t for i, t in enumerate(traces) if not any(f["trace"] == i for f in fails)]
            if clean:
                c = corrupt(self.rng.choice(clean), self.rng)
                if c:
                    _, cf = M.run_monitor(os.path.join(self.work, "mon_" + tag), inst, [c[0]], name="MC_Obs_" + inst.name + "_selftest")
                    self.selftest.append({"instance": inst.name, "corruption": c[1], "objections": sorted({f["prop"] for f in cf})})
                    if not cf:
                        raise C.MachineryError("binding self-test: corrupted trace (%s) was accepted" % c[1])
        return good, traces, fails

    def explore(self, inst_name, pools_kind="shared", maxbounce=1, invariants=None, maxtries=1, max_present=None, timeout=3000, expect_violation=False, statuses=("PASS", "FAIL"), ownunexplored=None, live=False, poolscope=("own", "swarm", "cluster", "shared")):
        """exhaustive exploration of the algorithm model on an instance parsed by the current tree"""
        inst = make_instance(inst_name).prepare()
        mc = A.model_constants(inst)
        if pools_kind == "shared":
            pools = A.shared_pools(mc, max_present)
        elif pools_kind == "empty":
            pools = [{}]
        elif pools_kind == "installed":
            # object creation never needed: every install state is in the shared pool
            inst_states = {s for t in mc["objroots"] for s in mc["sets"][t]}
            pools = [dict(p, shared=set(p.get("shared", set())) | inst_states) for p in A.shared_pools({"states": [s for s in mc["states"] if s not in inst_states]}, max_present)]
        else:
            pools = A.residue_pools(mc, 1)
        r, _ = A.explore(os.path.join(self.work, "explore_" + inst_name + "_" + pools_kind + ("_oldguard" if ownunexplored is False else "") + ("_live" if live else "") + ("" if len(poolscope) == 4 else "_" + "".join(x[0] for x in poolscope))), inst, "MC_explore", pools, maxbounce=maxbounce,
                         maxtries=maxtries, invariants=invariants or A.SAFETY, timeout=timeout, statuses=statuses, ownunexplored=ownunexplored, live=live, poolscope=poolscope)
        rec = {"instance": inst_name, "workers": inst.nets, "lazy": inst.lazy, "test_classes": len(mc["tests"]), "initial_pools": len(pools),
               "pools": pools_kind, "pool_scope": " ".join(poolscope), "max_backoffs_per_worker": maxbounce, "max_tries": maxtries, "statuses": list(statuses),
               "cleanup_guard": "as coded" if ownunexplored is None else ("own unexplored tests too" if ownunexplored else "globally unexplored tests only (before fix ce5db6a)"),
               "invariants": list(invariants or A.SAFETY) + (["NoSpin (temporal, under WF(Next))"] if live else []), "ok": bool(r.ok), "violated": r.violated, "distinct_states": r.distinct,
               "states_generated": r.generated, "wall_s": round(r.wall, 1), "timeout": "TIMEOUT" in r.out}
        if not r.ok and not r.violated:
            raise C.MachineryError("exploration of %s failed: %s" % (inst_name, (r.errors[:3] or r.out[-300:])))
        if r.violated:
            tr = r.trace()
            rec["counterexample"] = {"length": len(tr), "bad": C.tlaval.plain(tr[-1][1].get("bad")) if tr else None,
                                     "initial_pool": C.tlaval.plain(tr[0][1].get("pool")) if tr else None}
        self.explorations.append(rec)
        return rec

    def replay_model(self, inst_name, num, seed=1, maxbounce=2):
        """spec -> code: behaviours TLC simulates on the algorithm model are driven through the real traversal"""
        from . import replay as RP
        inst = make_instance(inst_name).prepare()
        r, behs, results = RP.replay_behaviours(os.path.join(self.work, "replay_" + inst_name), inst, num, depth=500, seed=seed, maxbounce=maxbounce)
        rec = {"instance": inst_name, "behaviours": len(results), "exact": 0, "steps_compared": 0, "differences": []}
        for res in results:
            if "harness_error" in res:
                raise C.MachineryError("scripted replay failed in the harness: %s" % res["harness_error"])
            rec["steps_compared"] += min(res["steps_model"], res["steps_code"])
            if res["first_difference"] is None and not res["problems"]:
                rec["exact"] += 1
            else:
                rec["differences"].append({"at": res["at"], "problems": res["problems"][:2]})
        self.replays = getattr(self, "replays", []) + [rec]
        for d in rec["differences"][:2]:
            self.conformance["diverged"].append({"instance": inst_name, "replay_of_model_behaviour": d})
        return rec

    def evidence(self, tier, wall, nviol, rule, assumptions, extra=None):
        cov = {"states": max(self.states, 1), "transitions": max(self.transitions, 1), "traces_validated_against_impl": self.ntraces,
               "samples": self.samples or [{"note": "none"}], "events_validated": self.nevents, "instances": self.instances,
               "binding_selftest": self.selftest, "harness_errors": len(self.harness_errors),
               "rule": rule + "; distinct_nontrivial = recorded executions with at least one test execution, distinct by their sequence of seam events"}
        cov.update({"evaluations": self.ntraces, "distinct_nontrivial": len(self.distinct)})
        cov["algorithm_model"] = {"model_behaviours_replayed_on_code": getattr(self, "replays", []), "explorations": self.explorations, "trace_conformance": dict(self.conformance, diverged=self.conformance["diverged"][:5])}
        if self.explorations and all(x["ok"] for x in self.explorations):
            self.level = "model_checking"
            cov["states"] = self.states + sum(x["distinct_states"] for x in self.explorations)
            cov["transitions"] = self.transitions + sum(x["states_generated"] for x in self.explorations)
            cov["exhaustive"] = True
        cov.update(extra or {})
        return C.write_evidence(self.pid, tier, self.seed, self.level, cov, assumptions, wall, nviol)


def generic_run(pid, tier, seed, plan, make_jobs, signature, describe, settings_of=lambda job: {}, props=None, rule="", assumptions=(),
                post=None, explore_plan=None, nconf=None):
    """plan: list of (instance name, instance params, number of schedules); make_jobs(inst, rng, n) -> jobs"""
    t0 = time.time()
    C.repo_python_setup()
    import unittest_importer  # noqa: F401
    work = C.build_dir(pid, wipe=True)
    v = C.Verdict(pid)
    camp = Campaign(pid, work, seed)
    camp.nconf = (3 if tier == "quick" else 12) if nconf is None else nconf
    rng = random.Random(seed)
    for ex in (explore_plan or []):
        rec = camp.explore(**ex)
        if rec["violated"] and not ex.get("expect_violation"):
            # a model counterexample is not a verdict: the real code is explored more widely instead (DESIGN 5.4)
            C.log("MODEL-COUNTEREXAMPLE (not a verdict; schedules on the real code are quadrupled): %s %s" % (rec["violated"], rec.get("counterexample")))
            plan = [(a, b, c * 4) for a, b, c in plan]
            rec["ok"] = False
        elif ex.get("expect_violation"):
            if not rec["violated"]:
                raise C.MachineryError("vacuity guard: the model did not reproduce the known finding on %s" % ex["inst_name"])
            rec["ok"] = True
            rec["guard"] = "known finding / pre-fix design reproduced by the model (expected)"
    if explore_plan:
        camp.replay_model("tut1x2e", 6 if tier == "quick" else 40, seed=seed + 1)
        camp.replay_model("tut13x2e", 4 if tier == "quick" else 40, seed=seed + 2)
    if tier != "quick":
        # the thorough tier must end within the hour per check on 16 cores: schedule counts of the plans are scaled
        plan = [(a, b, max(16, int(c * THOROUGH_SCALE))) for a, b, c in plan]
    for name, params, n in plan:
        inst = make_instance(name, params).prepare()
        jobs = make_jobs(inst, rng, n)
        good, traces, fails = camp.run_instance(inst, jobs, settings_of=settings_of, props=props or {pid})
        if post:
            post(inst, good, traces, v)
    for inst, res, f, tr in camp.failures:
        v.violation(signature(inst, res, f), describe(inst, res, f), {"instance": inst.name, "instance_params": inst.params, "job": res["job"], "failure": f})
    rc = v.finish()
    for dv in camp.conformance["diverged"][:3]:
        C.log("CONFORMANCE-DIVERGED (the algorithm model rejects a recorded execution; the property monitors decide): %s" % dv)
    camp.evidence(tier, time.time() - t0, len(v.violations), rule, list(assumptions) + [
        "environment model of DESIGN appendix C (a PASS/WARN end leaves the set states in the executing worker's own pool; scans answer "
        "from own + shared pool)", "test processes, state control and sessions substituted at the seams the selftests use"],
        {"known_findings_hit": {k: n for k, (f, n) in v.known_hit.items()}})
    return rc


def short(inst, t):
    return inst.const["tests"][t]["name"].split(".vms.")[0] if t in inst.const["tests"] else t


def replay(pid, path):
    """re-run the recorded job of a replay file on the current tree and print what the monitor says"""
    C.repo_python_setup()
    import unittest_importer  # noqa: F401
    with open(path) as f:
        rp = json.load(f)["replay"]
    inst = make_instance(rp["instance"], rp.get("instance_params")).prepare()
    work = C.build_dir(pid, "replay", wipe=True)
    res = P.run_jobs(inst, [rp["job"]], work)
    traces = [M.norm_trace(r, inst, dict(r["job"].get("settings", {}), norerunrule=bool(r["job"].get("invalid")))) for r in res if "harness_error" not in r]
    r, fails = M.run_monitor(work, inst, traces, name="MC_Obs_replay")
    mine = [f for f in fails if f["prop"] == pid]
    for f in mine:
        print("monitor failure:", f)
    print("replay: %d failure(s) of %s" % (len(mine), pid))
    return 1 if mine else 0


STRUCT = ["TypeOK", "PathContinuous"]
THOROUGH_SCALE = float(os.environ.get("VERIF_THOROUGH_SCALE", "0.4"))


def explore_plan(tier, inv, retries=False, removable=False, residue=False, lost=False):
    """exploration instances of the algorithm model for one property invariant"""
    quick = tier == "quick"
    plan = [dict(inst_name="tut1x2", pools_kind="shared", maxbounce=2, invariants=STRUCT + inv),
            dict(inst_name="tut1x2e", pools_kind="shared", maxbounce=1, invariants=STRUCT + inv)]
    # narrowed reuse scope: lxc workers without the swarm scope each run their own setup
    plan.append(dict(inst_name="tut1x2", pools_kind="shared", maxbounce=1, invariants=STRUCT + inv, poolscope=("own", "shared")))
    if retries:
        plan.append(dict(inst_name="tut1x2", pools_kind="installed", maxbounce=1, maxtries=2, invariants=STRUCT + inv))
    if lost:
        plan.append(dict(inst_name="tut1x2", pools_kind="shared", maxbounce=1, invariants=STRUCT + inv, statuses=("PASS", "LOST")))
        # liveness: no coroutine keeps the event loop for ever (await-free cycle), small instances only (TLC's liveness check is slow)
        plan.append(dict(inst_name="tut1x2", pools_kind="shared", maxbounce=1, max_present=1, invariants=["TypeOK"], live=True))
        plan.append(dict(inst_name="guigetx2", pools_kind="installed", maxbounce=0, max_present=0, invariants=["TypeOK"], statuses=("PASS",), live=True))
    if removable:
        plan.append(dict(inst_name="guix2", pools_kind="installed", maxbounce=0, invariants=STRUCT + inv, statuses=("PASS",), max_present=1 if quick else None))
        # producer of a removable state and its dependant both selected: lazy expansion of the dependant after the producer ran
        plan.append(dict(inst_name="guigetx2", pools_kind="installed", maxbounce=0 if quick else 1, invariants=STRUCT + inv + ["Completed"], statuses=("PASS",), max_present=0))
        # vacuity/fidelity guard: the design before fix ce5db6a must violate the invariant in the model
        plan.append(dict(inst_name="guigetx2", pools_kind="installed", maxbounce=0, invariants=inv, statuses=("PASS",), max_present=0, ownunexplored=False, expect_violation=True))
    if not quick:
        plan += [dict(inst_name="tut1c", pools_kind="shared", maxbounce=1, max_present=1, invariants=STRUCT + inv, poolscope=("own", "swarm", "shared")),   # remote: per swarm
                 dict(inst_name="tut13x2", pools_kind="shared", maxbounce=0, max_present=1, invariants=STRUCT + inv, timeout=5000),
                 dict(inst_name="tut1x1", pools_kind="shared", maxbounce=1, invariants=STRUCT + inv),
                 dict(inst_name="guix2", pools_kind="empty", maxbounce=0, invariants=STRUCT + inv, timeout=5000)]
        if retries:
            plan.append(dict(inst_name="tut1x2", pools_kind="installed", maxbounce=1, maxtries=3, invariants=STRUCT + inv))
        if residue:
            plan.append(dict(inst_name="tut13x2", pools_kind="residue", maxbounce=0, invariants=inv, expect_violation=True, timeout=5000))
    return plan
