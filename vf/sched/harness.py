"""Virtual-time harness driving the REAL TestGraph.traverse_object_trees of /repo's working tree.

* VLoop: asyncio loop in virtual time (jumps to the next timer; no real sleeping).
* Env: the environment model (DESIGN appendix C): state pools per location, the state-control door
  (check/unset/get requests) and the fake test process (checks nothing itself: it only reports what it sees;
  the monitors are TLA+).
* Recorder: wrappers around public methods of the imported code that emit one event per traversal step.
* run_schedule(): one complete traversal under one environment schedule, returns the event list.

Everything here is imported only inside a child process of the fork pool (vf/sched/pool.py) or after
common.repo_python_setup().
"""
import asyncio
import random
import re
from unittest import mock


class Watchdog(Exception):
    pass


def make_loop():
    class VLoop(asyncio.SelectorEventLoop):
        def __init__(self):
            super().__init__()
            self._vt = 0.0

        def time(self):
            return self._vt

        def _run_once(self):
            if not self._ready and self._scheduled:
                when = self._scheduled[0]._when
                if when > self._vt:
                    self._vt = when
            orig = self._selector.select
            self._selector.select = lambda timeout=None: []
            try:
                super()._run_once()
            finally:
                self._selector.select = orig

    return VLoop()


VM_STRS = {"vm1": "only CentOS\n", "vm2": "only Win10\n", "vm3": "only Ubuntu\n"}


def cls_name(node):
    """worker-invariant class key of a node"""
    if node.is_shared_root():
        return "ROOT"
    if node.is_flat():
        return "FLAT:" + node.params["name"]
    n = re.sub(r"\.nets\..*$", "", node.params["name"])
    # a test is the same test whether it was composed as a leaf of the selected set or as setup of another leaf ("all.")
    for m in MAIN_SETS:
        if n.startswith(m + "."):
            return n[len(m) + 1:]
    return n


MAIN_SETS = ["normal.nongui", "normal.gui", "nonleaves", "leaves", "normal", "minimal", "all"]


def node_states(node, do):
    """[(object key, state, get_location string, object)] of a composite node for do in get/set"""
    out = []
    for o in node.objects:
        if o.key == "nets":
            continue
        op = o.object_typed_params(node.params)
        s = op.get(f"{do}_state")
        if s:
            out.append((f"{o.key}_{o.long_suffix}", s, op.get("get_location", ""), o))
    return out


class Env:
    """environment model: pools, door, fake test process"""

    def __init__(self, rec, store, sched):
        self.rec = rec
        self.store = {k: set(v) for k, v in store.items()}
        self.sched = sched
        self.counts = {}
        self.door_action = None
        self.door_params = None

    def pool(self, loc):
        return self.store.setdefault(loc, set())

    # ---- door (avocado_i2n.cartgraph.node.door)
    def set_subcontrol_parameter(self, _, __, do):
        self.door_action = do
        return "x"

    def set_subcontrol_parameter_dict(self, _, __, p):
        self.door_params = p
        return "x"

    def run_subcontrol(self, session, path):
        from aexpect.exceptions import ShellCmdError
        p, do, w = self.door_params, self.door_action, session.wid
        own = str(p.get("nets", w)) == w      # the state control runs in the environment of the worker the node was composed for
        if do == "check":
            req = sorted((k[len("check_state_"):], v) for k, v in p.items() if k.startswith("check_state_"))
            ok = all((o, s) in self.pool(w) or (o, s) in self.pool("shared") for o, s in req)
            self.rec.ev(w, "scan", req=["%s:%s" % r for r in req], found=ok, own=own)
            if not ok:
                raise ShellCmdError("cmd", 1, "AssertionError")
        elif do == "unset":
            req = sorted((k[len("unset_state_"):], v) for k, v in p.items() if k.startswith("unset_state_"))
            self.rec.ev(w, "unset", req=["%s:%s" % r for r in req], scope=str(p.get("pool_scope", "")), own=own)
            for o, s in req:
                self.pool(w).discard((o, s))
        elif do == "get":
            req = sorted((k[len("get_state_"):], v) for k, v in p.items() if k.startswith("get_state_"))
            self.rec.ev(w, "sync", req=["%s:%s" % r for r in req], own=own)
            for o, s in req:
                if (o, s) in self.pool("shared"):
                    self.pool(w).add((o, s))
        else:
            self.rec.ev(w, "door", do=str(do))

    # ---- fake test process (TestRunner.run_test_task)
    async def run_test_task(self, runner, node):
        loop = asyncio.get_event_loop()
        rec = self.rec
        worker = node.started_worker
        w = worker.id if worker is not None else "?"
        name = node.params["name"]
        pre = node.prefix.startswith("0") and ".noop." in name
        uid = node.id_test.uid
        if pre:
            vm = node.params["vms"]
            cls = rec.objroot_class.get(vm, "?")
        else:
            cls = rec.tid(node)
        k = self.counts[(cls, pre)] = self.counts.get((cls, pre), 0) + 1
        gets = []
        for okey, s, loc, o in node_states(node, "get"):
            srcs = []
            for src in loc.split():
                wid, _path = src.split(":")
                srcs.append(wid if wid else "shared")
            gets.append({"o": okey, "s": s, "src": srcs, "perm": bool(o.is_permanent())})
        status, dur = self.sched.outcome(cls, pre, w, k)
        own = node.params.get("nets", "") == w
        if own and worker is not None and node.params.get("nets_spawner") == "remote":
            # a remote test process is started through the worker's session (TestRunner.run_test_task: task.spawner_handle)
            try:
                own = getattr(worker.get_session(), "wid", w) == w
            except Exception:
                pass
        m = re.search(r"r(\d+)$", uid)
        rec.ev(w, "prestart" if pre else "start", t=cls, uid=uid, u=int(m.group(1)) if m else 0, vt=round(loop.time(), 3),
               gets=gets, own=own, nets=node.params.get("nets", ""),
               pm={k: str(node.params.get(k, "")) for k in ("pool_scope", "check_mode_images")},
               scope=node.params.get("pool_scope", ""), srcw=sorted({k2[len("nets_host_"):] for k2 in node.params if k2.startswith("nets_host_")}),
               name=name, has_unknown=("UNKNOWN" in [r["status"] for r in node.results]),
               vms=node.params.get("vms", ""), vm_action=node.params.get("vm_action", ""), marker=node.params.get("verif_marker", ""))
        await asyncio.sleep(dur)
        sets = ["%s:%s" % (okey, s) for okey, s, _, _ in node_states(node, "set")]
        if status in ("PASS", "WARN"):
            for okey, s, _, _ in node_states(node, "set"):
                self.pool(w).add((okey, s))
        rec.ev(w, "preend" if pre else "endrun", t=cls, uid=uid, s=status or "LOST", vt=round(loop.time(), 3), sets=sets, dur=dur)
        if status is not None:
            tid = type("M", (), {"uid": uid, "name": name})()
            runner.job.result.tests.append({"name": tid, "status": status, "time_elapsed": dur, "logdir": "."})


class Schedule:
    """environment choices of one execution, drawn from a seed (or prescribed explicitly)"""

    def __init__(self, seed, statuses=("PASS",), weights=None, durations=(0.05, 0.17, 0.33, 1.3, 7.7), script=None, lost=0.0, persist=None):
        self.rng = random.Random(seed)
        self.statuses, self.weights, self.durations, self.script, self.lost = list(statuses), weights, list(durations), script or {}, lost
        # persistent outcome of one test or creation step: {"<class>|main" or "<class>|pre": status or "LOST"}
        self.persist = persist or {}

    def outcome(self, cls, pre, w, k):
        key = "%s|%s|%d" % (cls, "pre" if pre else "main", k)
        if key in self.script:
            st, dur = self.script[key]
            return st, dur
        st = self.rng.choices(self.statuses, weights=self.weights)[0]
        if self.lost and self.rng.random() < self.lost:
            st = None
        dur = self.rng.choice(self.durations)
        pk = "%s|%s" % (cls, "pre" if pre else "main")
        if pk in self.persist:
            st = None if self.persist[pk] == "LOST" else self.persist[pk]
        return st, dur


class Recorder:
    """event log + wrappers on the imported classes (no change to /repo)"""

    def __init__(self, ids, worker_ids, cap=30000):
        self.ids, self.worker_ids, self.cap = ids, worker_ids, cap
        self.log = []
        self.cur = {}
        self.runs = 0
        self.objroot_class = {}
        self._orig = []

    def tid(self, node):
        k = cls_name(node)
        if k not in self.ids:
            self.ids[k] = "t%d" % len(self.ids)
        return self.ids[k]

    def wid(self, worker):
        return worker if isinstance(worker, str) else worker.id

    def ev(self, w, a, **kw):
        if len(self.log) >= self.cap:
            raise Watchdog()
        if a == "prestart":
            # every creation pre-step is parsed afresh by the Cartesian parser (~0.5 s): bound them separately
            self.npre = getattr(self, "npre", 0) + 1
            if self.npre > 60:
                raise Watchdog()
        e = {"i": len(self.log) + 1, "w": self.wid(w), "a": a}
        e.update(kw)
        self.log.append(e)

    def _wrap(self, cls, name, maker):
        orig = getattr(cls, name)
        self._orig.append((cls, name, orig))
        setattr(cls, name, maker(orig))

    def install(self):
        from avocado_i2n.cartgraph import TestGraph, TestNode
        rec = self

        def pick(kind):
            def maker(o):
                def f(self, worker):
                    r = o(self, worker)
                    rec.ev(worker, kind, x=rec.tid(self), y=rec.tid(r))
                    return r
                return f
            return maker

        self._wrap(TestNode, "pick_child", pick("pickchild"))
        self._wrap(TestNode, "pick_parent", pick("pickparent"))

        def drop_parent(o):
            def f(self, node, worker):
                rec.ev(worker, "dropparent", x=rec.tid(self), y=rec.tid(node))
                return o(self, node, worker)
            return f

        self._wrap(TestNode, "drop_parent", drop_parent)

        def occ(o):
            def f(self, worker=None):
                r = o(self, worker)
                if r and worker is not None:
                    rec.ev(worker, "bounce", x=rec.tid(self), mct=str(self.params.get("max_concurrent_tries", "")))
                return r
            return f

        self._wrap(TestNode, "is_occupied", occ)

        def trav(o):
            async def f(self, node, worker, params):
                before = rec.runs
                await o(self, node, worker, params)
                rec.cur["w"], rec.cur["n"] = worker, node
                if rec.runs == before:
                    rec.ev(worker, "skip", x=rec.tid(node))
                rec.ev(worker, "traversed", x=rec.tid(node), res=[r["status"] for r in node.results])
            return f

        self._wrap(TestGraph, "traverse_node", trav)

        def rev(o):
            async def f(self, node, worker, params):
                rec.ev(worker, "reverse", x=rec.tid(node))
                await o(self, node, worker, params)
            return f

        self._wrap(TestGraph, "reverse_node", rev)

        def prog(o):
            def f(self):
                if "w" in rec.cur:
                    rec.ev(rec.cur["w"], "cready", x=rec.tid(rec.cur["n"]))
                return o(self)
            return f

        self._wrap(TestGraph, "report_progress", prog)

        def exp(o):
            def f(self, node, net, params=None):
                ws = [x for x in self.workers.values() if x.net is net]
                before = {id(n) for n in self.nodes}
                rec.ev(ws[0] if ws else "?", "expand", x=rec.tid(node))
                gen = o(self, node, net, params)
                for item in gen:
                    yield item
                added = [n for n in self.nodes if id(n) not in before]
                rec.ev(ws[0] if ws else "?", "expanded", x=rec.tid(node), added=sorted(rec.tid(n) for n in added if not n.is_flat()))
            return f

        self._wrap(TestGraph, "parse_paths_to_object_roots", exp)

        def tot(o):
            async def f(self, worker, params=None):
                rec.ev(worker, "begin")
                try:
                    await o(self, worker, params)
                except Watchdog:
                    raise
                except BaseException as ex:
                    rec.ev(worker, "error", exc=type(ex).__name__, msg=str(ex)[:200])
                    raise
                rec.ev(worker, "end")
            return f

        self._wrap(TestGraph, "traverse_object_trees", tot)

    def uninstall(self):
        for cls, name, orig in reversed(self._orig):
            setattr(cls, name, orig)
        self._orig = []


def run_traversal(graph, ids, store, sched, run_params, previous_results=None, cap=30000, eager_objroots=None):
    """one complete traversal of `graph` (already parsed, possibly lazily expandable) under the environment;
    returns dict(events, outcome, results, all_ok)"""
    from avocado_i2n.cartgraph import TestWorker
    from avocado_i2n.cartgraph import node as nodemod
    from avocado_i2n.plugins.runner import TestRunner
    workers = sorted(graph.workers.values(), key=lambda x: x.params["name"])
    rec = Recorder(ids, [w.id for w in workers], cap=cap)
    rec.objroot_class = dict(eager_objroots or {})
    for n in graph.nodes:
        if not n.is_flat() and n.is_object_root():
            rec.objroot_class.setdefault(n.params["vms"], rec.tid(n))
    env = Env(rec, store, sched)
    runner = TestRunner()
    job = mock.MagicMock()
    job.result = mock.MagicMock()
    job.result.tests = []
    job.config = {}
    runner.job = job
    runner.previous_results = list(previous_results or [])
    graph.runner = runner

    address_of = {}
    for w_ in workers:
        address_of[(str(w_.params.get("nets_shell_host")), str(w_.params.get("nets_shell_port")))] = w_.id

    def wait_for_login(client, host, port, *a, **k):
        # the session leads to the environment listening at host:port
        s = mock.MagicMock()
        s.wid = address_of.get((str(host), str(port)), "?%s:%s" % (host, port))
        s.cmd_output.return_value = "today"
        return s

    async def rtt(self, node):
        rec.runs += 1
        await env.run_test_task(self, node)

    TestWorker._session_cache.clear()
    outcome = "done"
    rec.install()
    try:
        with mock.patch.object(nodemod, "door", env), mock.patch.object(TestRunner, "run_test_task", rtt), \
                mock.patch("avocado_i2n.cartgraph.worker.remote.wait_for_login", wait_for_login):
            loop = make_loop()
            asyncio.set_event_loop(loop)
            try:
                loop.run_until_complete(asyncio.gather(*[graph.traverse_object_trees(w, run_params) for w in workers]))
            except Watchdog:
                outcome = "watchdog"
            except BaseException as ex:
                outcome = "error:%s:%s" % (type(ex).__name__, str(ex)[:200])
            vt = loop.time()
            try:
                loop.close()
            except Exception:
                pass
    finally:
        rec.uninstall()
    try:
        all_ok = bool(runner.all_results_ok())
    except Exception as ex:
        all_ok = "raised %s" % type(ex).__name__
    results = {}
    for n in graph.nodes:
        if n.is_flat():
            continue
        results.setdefault(rec.tid(n), {})[n.params.get("nets", "?")] = [r["status"] for r in n.results]
    job_results = [{"name": t["name"].name, "uid": t["name"].uid, "status": t["status"]} for t in job.result.tests]
    return {"events": rec.log, "outcome": outcome, "results": results, "all_ok": all_ok, "vt": vt, "job": job_results,
            "final_store": {k: sorted("%s:%s" % x for x in v) for k, v in env.store.items()}}
