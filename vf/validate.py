"""validate MANIFEST.json and evidence files against the given schemas (run with python3-vt)"""
import glob, json, sys
import jsonschema
ok = True
def v(path, schema):
    global ok
    try:
        jsonschema.validate(json.load(open(path)), json.load(open(schema)))
        print("valid  ", path)
    except Exception as ex:
        ok = False
        print("INVALID", path, str(ex)[:300])
v("/verif/MANIFEST.json", "/root/.vp/MANIFEST.schema.json")
for f in sorted(glob.glob("/verif/evidence/*.json")):
    v(f, "/root/.vp/EVIDENCE.schema.json")
sys.exit(0 if ok else 1)
