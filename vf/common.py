"""Shared machinery: paths, TLC runner, state-graph reader, evidence writer, findings, verdicts."""
import json
import os
import re
import shutil
import subprocess
import sys
import time

from . import tlaval

VERIF = os.path.dirname(os.path.dirname(os.path.abspath(__file__)))
REPO = os.environ.get("VERIF_REPO", "/repo")
SPECS = os.path.join(VERIF, "specs")
BUILD = os.path.join(VERIF, "build")
EVIDENCE = os.path.join(VERIF, "evidence")
REPLAYS = os.path.join(VERIF, "replays")
FINDINGS = os.path.join(VERIF, "known_findings.json")
JAVA_CP = "/opt/veriftools/tla/tla2tools.jar:/opt/veriftools/tla/CommunityModules-deps.jar"
NCPU = os.cpu_count() or 4


class MachineryError(Exception):
    """the checking machinery itself failed (exit code 2)"""


def build_dir(pid, sub=None, wipe=False):
    d = os.path.join(BUILD, pid) if sub is None else os.path.join(BUILD, pid, sub)
    if wipe and os.path.isdir(d):
        shutil.rmtree(d, ignore_errors=True)
    os.makedirs(d, exist_ok=True)
    return d


def replay_dir(pid, wipe=False):
    d = os.path.join(REPLAYS, pid)
    if wipe and os.path.isdir(d):
        shutil.rmtree(d, ignore_errors=True)
    os.makedirs(d, exist_ok=True)
    return d


class TLCResult:
    def __init__(self, out, rc, wall):
        self.out, self.rc, self.wall = out, rc, wall
        m = re.search(r"(\d+) states generated, (\d+) distinct states found, (\d+) states left", out)
        self.generated = int(m.group(1)) if m else 0
        self.distinct = int(m.group(2)) if m else 0
        self.left = int(m.group(3)) if m else 0
        m = re.search(r"depth of the complete state graph search is (\d+)", out)
        self.depth = int(m.group(1)) if m else 0
        self.ok = "No error has been found" in out
        m = re.search(r"Invariant (\S+) is violated", out)
        self.violated = m.group(1) if m else None
        if self.violated is None:
            m = re.search(r"Action property (\S+) is violated|Temporal property (\S+) was violated|Temporal properties were violated", out)
            if m:
                self.violated = m.group(1) or m.group(2) or "temporal"
        self.deadlock = "Deadlock reached" in out
        self.parse_failed = "Parsing or semantic analysis failed" in out or "*** Errors" in out
        self.errors = [l for l in out.splitlines() if re.search(r"\bError\b|rror:", l)]

    def trace(self):
        """counterexample behaviour printed by TLC, as list of (action, state dict)"""
        res, action, buf = [], None, None
        for line in self.out.splitlines():
            m = re.match(r"^State \d+: <(\w+)", line)
            if m:
                if buf:
                    res.append((action, tlaval.parse_state("\n".join(buf))))
                action, buf = m.group(1), []
                continue
            if buf is not None:
                if line.startswith("/\\") or (buf and line.startswith(" ")) or (buf and line.strip() and not re.match(r"^(Error|\d+ states|The |Finished|Back to state)", line)):
                    buf.append(line)
                elif not line.strip() and buf:
                    res.append((action, tlaval.parse_state("\n".join(buf))))
                    buf = None
        if buf:
            res.append((action, tlaval.parse_state("\n".join(buf))))
        return res

    def coverage(self):
        """per-action counts from -coverage output: {action: (distinct, total)}"""
        cov = {}
        for m in re.finditer(r"<(\w+) line \d+, col \d+ to line \d+, col \d+ of module (\w+)>: (\d+):(\d+)", self.out):
            a = m.group(1)
            d, t = int(m.group(3)), int(m.group(4))
            if a in cov:
                cov[a] = (cov[a][0] + d, cov[a][1] + t)
            else:
                cov[a] = (d, t)
        return cov


def stage_specs(workdir, *spec_dirs):
    """copy all .tla files of the given spec directories into workdir"""
    os.makedirs(workdir, exist_ok=True)
    for sd in spec_dirs:
        for f in os.listdir(sd):
            if f.endswith(".tla"):
                shutil.copy(os.path.join(sd, f), os.path.join(workdir, f))


def run_tlc(workdir, module, cfg=None, workers=None, dump=None, simulate=None, depth=None, seed=None,
            coverage=False, env=None, timeout=3600, extra=(), dfs=False, heap=None, stack=None):
    """run TLC in workdir on module.tla with cfg (file name in workdir). Returns TLCResult."""
    meta = os.path.join(workdir, "meta_" + module + "_" + str(os.getpid()))
    shutil.rmtree(meta, ignore_errors=True)
    cmd = ["java", "-XX:+UseParallelGC"]
    if heap:
        cmd.append("-Xmx" + heap)
    if stack:
        cmd.append("-Xss" + stack)
    if dfs:
        cmd.append("-Dtlc2.tool.queue.IStateQueue=StateDeque")
    cmd += ["-cp", JAVA_CP, "tlc2.TLC", "-workers", str(workers or NCPU), "-metadir", meta, "-noGenerateSpecTE"]
    if cfg:
        cmd += ["-config", cfg]
    if dump:
        cmd += ["-dump", "dot,actionlabels", dump]
    if simulate:
        cmd += ["-simulate", simulate]
    if depth:
        cmd += ["-depth", str(depth)]
    if seed is not None:
        cmd += ["-seed", str(seed)]
    if coverage:
        cmd += ["-coverage", "1"]
    cmd += list(extra)
    cmd.append(module + ".tla")
    e = dict(os.environ)
    e.pop("JAVA_TOOL_OPTIONS", None)
    if env:
        e.update(env)
    t0 = time.time()
    try:
        r = subprocess.run(cmd, cwd=workdir, env=e, capture_output=True, text=True, timeout=timeout)
        out, rc = r.stdout + r.stderr, r.returncode
    except subprocess.TimeoutExpired as ex:
        out = (ex.stdout or b"").decode(errors="replace") if isinstance(ex.stdout, bytes) else (ex.stdout or "")
        out += "\nTLC TIMEOUT after %ss\n" % timeout
        rc = -9
    finally:
        shutil.rmtree(meta, ignore_errors=True)
    res = TLCResult(out, rc, time.time() - t0)
    with open(os.path.join(workdir, module + ".tlc.out"), "w") as f:
        f.write(out)
    if res.parse_failed:
        raise MachineryError("TLC could not parse %s: %s" % (module, "\n".join(out.splitlines()[:30])))
    return res


class StateGraph:
    """labelled state graph read from a TLC `-dump dot,actionlabels` file"""

    def __init__(self, path):
        self.states, self.inits, self.edges = {}, [], []
        node_re = re.compile(r'^(-?\d+) \[label="((?:[^"\\]|\\.)*)"(,style = filled)?')
        edge_re = re.compile(r'^(-?\d+) -> (-?\d+) \[label="([^"]*)"')
        seen_edges = set()
        with open(path) as f:
            for line in f:
                m = edge_re.match(line)
                if m:
                    key = (m.group(1), m.group(2), m.group(3))
                    if key not in seen_edges:
                        seen_edges.add(key)
                        self.edges.append(key)
                    continue
                m = node_re.match(line)
                if m:
                    sid = m.group(1)
                    if sid not in self.states:
                        txt = m.group(2).replace("\\n", "\n")
                        txt = re.sub(r"\\(.)", r"\1", txt)
                        self.states[sid] = tlaval.parse_state(txt)
                    if m.group(3) and sid not in self.inits:
                        self.inits.append(sid)
        self.out = {}
        for s, d, a in self.edges:
            self.out.setdefault(s, []).append((d, a))

    def cover_paths(self, limit=None):
        """paths from initial states that together cover every edge (greedy DFS); each path is
        [init_id, (action, state_id), ...]"""
        covered, paths = set(), []
        # BFS tree for shortest access paths
        parent = {}
        from collections import deque
        dq = deque(self.inits)
        for i in self.inits:
            parent[i] = None
        while dq:
            s = dq.popleft()
            for d, a in self.out.get(s, []):
                if d not in parent:
                    parent[d] = (s, a)
                    dq.append(d)

        def access(s):
            rev = []
            while parent[s] is not None:
                p, a = parent[s]
                rev.append((a, s))
                s = p
            return [s] + rev[::-1]

        for s in list(parent):
            for d, a in self.out.get(s, []):
                if (s, d, a) in covered:
                    continue
                path = access(s)
                cur = s
                # mark access edges
                prev = path[0]
                for a2, s2 in path[1:]:
                    covered.add((prev, s2, a2))
                    prev = s2
                # extend greedily through uncovered edges
                nd, na = d, a
                while True:
                    covered.add((cur, nd, na))
                    path.append((na, nd))
                    cur = nd
                    nxt = [(d2, a2) for d2, a2 in self.out.get(cur, []) if (cur, d2, a2) not in covered]
                    if not nxt:
                        break
                    nd, na = nxt[0]
                paths.append(path)
                if limit and len(paths) >= limit:
                    return paths
        return paths


# ---------------------------------------------------------------- findings and verdicts

def load_findings():
    if not os.path.exists(FINDINGS):
        return []
    with open(FINDINGS) as f:
        return json.load(f)["findings"]


class Verdict:
    """collects violations of one property check; decides known/unknown; prints the interface lines"""

    def __init__(self, pid):
        self.pid = pid
        self.violations = []  # (signature string, description, replay path)
        self.known_hit = {}
        self.notes = []
        self._n = 0
        replay_dir(pid, wipe=True)

    def violation(self, signature, description, replay_obj):
        """record a violation observed on the real code; signature is matched against known findings"""
        self._n += 1
        for f in load_findings():
            if f["property"] == self.pid and f.get("status", "known") == "known" and re.search(f["match"], signature):
                self.known_hit.setdefault(f["id"], [f, 0])
                self.known_hit[f["id"]][1] += 1
                return False
        first = [p for sg, _, p in self.violations if sg == signature]
        if first:
            path = first[0]
        else:
            nsig = len({sg for sg, _, _ in self.violations})
            path = os.path.join(replay_dir(self.pid), "%d.json" % (nsig + 1))
            with open(path, "w") as fh:
                json.dump({"property": self.pid, "signature": signature, "description": description,
                           "replay": replay_obj}, fh, indent=1, default=str)
        self.violations.append((signature, description, path))
        return True

    def finish(self):
        for fid, (f, n) in sorted(self.known_hit.items()):
            print("KNOWN-FINDING: property=%s %s (%s; %d occurrence(s) this run)" % (self.pid, f["what_fails"], fid, n))
        seen = set()
        for sig, desc, path in self.violations:
            if sig in seen:
                continue
            seen.add(sig)
            print("VIOLATION property=%s replay=%s" % (self.pid, path))
            print("  signature: %s" % sig)
            print("  %s" % desc)
        return 1 if self.violations else 0


def write_evidence(pid, tier, seed, level, coverage, assumptions, wall, violations):
    os.makedirs(EVIDENCE, exist_ok=True)
    ev = {
        "property_id": pid,
        "tier": tier,
        "seed": int(seed),
        "level": level,
        "coverage": coverage,
        "assumptions": assumptions,
        "wall_s": round(wall, 2),
        "violations": int(violations),
    }
    tmp = os.path.join(EVIDENCE, pid + ".json.tmp")
    with open(tmp, "w") as f:
        json.dump(ev, f, indent=1, default=str)
    os.replace(tmp, os.path.join(EVIDENCE, pid + ".json"))
    return ev


def repo_python_setup():
    """make the current working tree of /repo importable (same way the selftests do)"""
    iso = os.path.join(REPO, "selftests", "isolation")
    for p in (iso, REPO):
        if p not in sys.path:
            sys.path.insert(0, p)
    import logging
    import warnings
    warnings.filterwarnings("ignore")
    logging.disable(logging.CRITICAL)


def log(*a):
    print(*a, flush=True)


def read_sim_traces(directory, prefix="tr"):
    """parse the behaviour files written by `tlc -simulate file=<dir>/<prefix>,num=N`;
    yields lists of (action, state dict)"""
    hdr = re.compile(r"^\\\* <(\w+)(?:\([^>]*\))? line")
    for fn in sorted(os.listdir(directory)):
        if not fn.startswith(prefix + "_"):
            continue
        beh, action, buf = [], None, []
        with open(os.path.join(directory, fn)) as f:
            for line in f:
                m = hdr.match(line)
                if m:
                    if buf:
                        beh.append((action_prev, tlaval.parse_state("".join(buf))))
                        buf = []
                    action = m.group(1)
                    continue
                if line.startswith("STATE_"):
                    action_prev = action
                    continue
                if line.startswith("/\\") or (buf and line.strip() and not line.startswith("====") and not line.startswith("----")):
                    buf.append(line)
                elif not line.strip() and buf:
                    beh.append((action_prev, tlaval.parse_state("".join(buf))))
                    buf = []
        if buf:
            beh.append((action_prev, tlaval.parse_state("".join(buf))))
        yield beh


def simulate(workdir, module, cfg, num, depth, seed, out_sub="sim", timeout=1800, env=None, stall=8):
    """run tlc -simulate writing num behaviours of at most depth states; returns (TLCResult, list of behaviours).
    TLC 1.8's simulator sometimes stops producing behaviours without exiting: the run is ended when no new
    behaviour file appeared for `stall` seconds (what was written so far is used; the count is reported)."""
    d = os.path.join(workdir, out_sub)
    shutil.rmtree(d, ignore_errors=True)
    os.makedirs(d)
    meta = os.path.join(workdir, "meta_sim_%s_%d" % (module, os.getpid()))
    cmd = ["java", "-XX:+UseParallelGC", "-cp", JAVA_CP, "tlc2.TLC", "-workers", "1", "-metadir", meta, "-noGenerateSpecTE",
           "-config", cfg, "-simulate", "file=%s/tr,num=%d" % (d, num), "-depth", str(depth), "-seed", str(seed), module + ".tla"]
    e = dict(os.environ)
    e.pop("JAVA_TOOL_OPTIONS", None)
    if env:
        e.update(env)
    t0 = time.time()
    outf = os.path.join(workdir, module + ".sim.out")
    with open(outf, "w") as fh:
        pr = subprocess.Popen(cmd, cwd=workdir, env=e, stdout=fh, stderr=subprocess.STDOUT)
        last_n, last_change = -1, time.time()
        while pr.poll() is None:
            time.sleep(0.5)
            n = len(os.listdir(d))
            if n != last_n:
                last_n, last_change = n, time.time()
            elif n > 0 and time.time() - last_change > stall:
                pr.kill()
                break
            if time.time() - t0 > timeout:
                pr.kill()
                break
        pr.wait()
    shutil.rmtree(meta, ignore_errors=True)
    out = open(outf).read()
    r = TLCResult(out, pr.returncode, time.time() - t0)
    if r.parse_failed:
        raise MachineryError("TLC could not parse %s: %s" % (module, "\n".join(out.splitlines()[:30])))
    behs = []
    for beh in read_sim_traces(d):
        if not beh:
            continue
        # drop stuttering tails
        ded = [beh[0]]
        for a, st in beh[1:]:
            if st != ded[-1][1]:
                ded.append((a, st))
        behs.append(ded)
    shutil.rmtree(d, ignore_errors=True)
    return r, behs
