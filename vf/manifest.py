"""Generates /verif/MANIFEST.json from the table below (run: /venv/bin/python -m vf.manifest)."""
import json
import os

VERIF = os.path.dirname(os.path.dirname(os.path.abspath(__file__)))
ALL = ["C%02d" % i for i in range(1, 21)]

# pid -> dict(engine, level, text, note, technique, design_ref)
EXTRA_TEXT = {
    "C01": " Schedules also vary reuse scopes (own+shared subsets), retry settings, remote and generated-suite instances; the monitor checks the scope of every named source.",
    "C02": " Schedules include persistent failure / never-reported results of one test or creation step; the algorithm model is additionally checked for the temporal property NoSpin (no coroutine keeps the event loop for ever) on two small instances.",
    "C04": " Schedules also vary reuse scopes and mix local and remote workers.",
    "C05": " The algorithm model carries the per-worker cleanup guard of fix ce5db6a (OwnUnexplored); the design before the fix is explored as a fidelity guard and must violate NoC05; generated suites with removable states at random depths are part of the campaign.",
    "C08": " The real TestWorker.get_session runs (only the login is substituted): state-control requests and remote test processes must go through the session of the node's own worker.",
    "C10": " A two-phase replay campaign (complete first jobs, then jobs replaying their result files with kept/removed states and own retry settings) validates the replay clause (previous results in the retry rule, ReplayOK).",
    "C20": " Part C: chains of real tools (incl. create/clean/collect) on one shared run configuration - parameters each step runs with, run parameters kept, failure reported by the tool - from the spec's phase 'real'.",
}

CLAIMS = {
    "C17": dict(
        engine="sequential-specs",
        level="model_checking",
        text="TLC enumerates every configuration of specs/vmstate/VMStates.tla (1-3 images x every none/off/on assignment per state "
             "name x every memory-file set), checks that the per-image narrowing algorithm equals the definition (all images carry "
             "the state), and every terminal state is executed on the real QCOW2VTBackend.show / QCOW2Backend.show / "
             "RamfileBackend._show; a pure listing function, so an exhaustively enumerated model replayed transition by transition is the right level",
        note="qemu-img itself is substituted by generated listings in its output format; tags over [\\w.-]; sizes as printed by %0.3g",
        technique="TLA+ spec + TLC exhaustive enumeration, every terminal state replayed on the implementation",
        design_ref="6/C17",
    ),
    "C19": dict(
        engine="sequential-specs",
        level="model_checking",
        text="TLC enumerates specs/vmnet/Tunnel.tla over the full product of local x remote x peer x auth types (plus an unsupported "
             "value in each position and the psk identity variants), checks the mirror invariants (nets, peers, identities, documented "
             "counterpart, rejection, symmetry of connects) on the generated parameters, and every transition is executed on the real "
             "VMTunnel over random concrete networks with all parameters of both sides and connects_nodes for 49 node pairs compared",
        note="vm objects are stubs as in the selftests; for a custom left net the right side's remote net is set by the caller and modelled as absent",
        technique="TLA+ spec + TLC exhaustive enumeration, every transition replayed on the implementation",
        design_ref="6/C19",
    ),
    "C16": dict(
        engine="sequential-specs",
        level="model_checking",
        text="specs/index/NameIndex.tla builds the trie the way PrefixTree.insert does next to the naive definition (names containing the "
             "query contiguously) and the register next to the bag of calls; TLC checks lookup = naive scan, membership = non-empty lookup, "
             "order independence and exact counters for all queries after every operation sequence (exhaustive for small constants, "
             "-simulate for larger ones). A transition cover of the state graph and every simulated behaviour is replayed on the real "
             "PrefixTree/EdgeRegister with the projected trie structure and every query/counter read-out compared after each step",
        note="names are parser-shaped as the property states; nodes/workers are stubs carrying name, bridged_form, id",
        technique="TLA+ spec + TLC (exhaustive + simulation), transition cover and behaviours replayed on the implementation",
        design_ref="6/C16",
    ),
    "C18": dict(
        engine="sequential-specs",
        level="model_checking",
        text="specs/vmnet/VMNet.tla models integrate_node / get_allocatable_address / reattach_interface (error exits as states) over a "
             "small address space; TLC checks the consistency invariants (each interface registered in exactly one netconfig containing "
             "its address, no duplicate address, allocation in range/fresh/exhausting) exhaustively on two instances. A transition cover of "
             "the small graph and -simulate behaviours of larger instances are replayed on the real VMNetwork over a random 32-bit base; the "
             "property is evaluated on the real registries after every step and the registries are compared with the spec state. "
             "specs/vmnet/NetArith.tla recomputes every recorded mask_bit/_get_network_ip/translate_address call in 16-bit limbs",
        note="static addresses are distinct and outside every DHCP range (the property requires allocation to hand out every address of the "
             "range); proxy-ARP reattachment deliberately shares an address and is outside the invariant; vm objects are stubs",
        technique="TLA+ spec + TLC (exhaustive + simulation), behaviours replayed on the implementation; call-record trace validation for the arithmetic",
        design_ref="6/C18",
    ),
    "C12": dict(
        engine="sequential-specs",
        level="model_checking",
        text="specs/states/StateSetup.tla is the store model (root flag + state names per object) with the check chain's root policy, the "
             "2-letter mode tables of get/set/unset/push/pop and the object iteration order; TLC checks non-interference and plain-store "
             "action properties and enumerates (a) the full table on one image (5 operations x root/ordinary x 25 letter pairs x 4 check "
             "modes x every store), (b) every call sequence up to a bound, and simulates (c) random stores x calls on 2 vms x 2 images with "
             "target/skip_types/readonly subsets. Every transition is executed on avocado_i2n.states.setup with an in-memory backend in "
             "BACKENDS; outcome, backend actions per object and resulting store are compared",
        note="per-object reading of the table: an abort ends the call, objects handled earlier keep their documented effect; the check "
             "policy's root forcing is the check row's own documented action; in-memory backend defines unset_root as removing the states too",
        technique="TLA+ spec + TLC (exhaustive + simulation), every transition replayed on the implementation",
        design_ref="6/C12",
    ),
    "C13": dict(
        engine="sequential-specs",
        level="model_checking",
        text="specs/pool/PoolScope.tla models show/get/set/unset and the root operations as 'which sources are contacted, in which order, "
             "what moves', with scope classification and proximity order transcribed from get_source_scope/get_sources; TLC checks "
             "contacts-permitted, closest-only, all-mirrors, show-soundness, download-only-if-differs and refusal-without-local over every "
             "pool_scope subset x location list (kinds = gateway x host x path) x placement x cache validity. Every transition is executed on "
             "subclasses of the real backends with stub transport/local backend; contacted sources in order, result and placement compared",
        note="remote transport (ssh/scp) stubbed (no network); one state name and one image; show's mirror combination modelled as coded",
        technique="TLA+ spec + TLC exhaustive enumeration, every transition replayed on the implementation",
        design_ref="6/C13",
    ),
    "C01": dict(
        engine="traversal",
        level="model_checking",
        text='every start of a test in recorded real traversals is checked by TLC against StartOK of specs/traversal/TraversalObs.tla: each required state is in a pool the worker was told to look in (scope enabled) unless the producer or the creation step failed in this run; schedules randomize durations, PASS/FAIL/ERROR/WARN placement, initial pools and residues of runs interrupted at a random event, on lazy and eager graphs with 2-4 workers',
        note="environment model of DESIGN appendix C (pools, door, fake test process) is trusted; the property predicates are the TLA+ monitor's, evaluated by TLC on every event of every recorded execution; a corrupted copy of an accepted trace must be rejected in every run (binding self-test). Where the level is model_checking the algorithm model specs/traversal/Traversal.tla (constants extracted from graphs parsed by the current tree) is explored exhaustively on small instances with the property's invariant - all interleavings at await granularity, all PASS/FAIL placements, all shared-pool populations, bounded back-offs, default reuse scope, untimed - and a sample of the recorded executions is validated step by step against the same model (DESIGN 10.3, 10.4)",
        technique="TLA+ algorithm model explored exhaustively by TLC + randomized schedules of the real code in virtual time validated by TLC against the TLA+ monitor and, fine-grained, against the algorithm model",
        design_ref='6/C01',
    ),
    "C02": dict(
        engine="traversal",
        level="model_checking",
        text='recorded real traversals under randomized timing/outcomes (incl. never-reported results, retries, restricted workers, dry runs) with a mandatory step watchdog are validated by TLC against TraversalObs: no traversal error, all workers back at the start, nothing running or pending at the end, every selected compatible test executed or found reusable, dry run inert',
        note="environment model of DESIGN appendix C (pools, door, fake test process) is trusted; the property predicates are the TLA+ monitor's, evaluated by TLC on every event of every recorded execution; a corrupted copy of an accepted trace must be rejected in every run (binding self-test). Where the level is model_checking the algorithm model specs/traversal/Traversal.tla (constants extracted from graphs parsed by the current tree) is explored exhaustively on small instances with the property's invariant - all interleavings at await granularity, all PASS/FAIL placements, all shared-pool populations, bounded back-offs, default reuse scope, untimed - and a sample of the recorded executions is validated step by step against the same model (DESIGN 10.3, 10.4)",
        technique="TLA+ algorithm model explored exhaustively by TLC + randomized schedules of the real code in virtual time validated by TLC against the TLA+ monitor and, fine-grained, against the algorithm model",
        design_ref='6/C02',
    ),
    "C03": dict(
        engine="traversal",
        level="model_checking",
        text='recorded real traversals over max_tries/max_concurrent_tries/pool_scope subsets/lxc and remote worker sets/initial pools are validated by TLC against TraversalObs: executions per test and reuse scope within budget, first examination finding all states forbids execution, clone sources never executed',
        note="environment model of DESIGN appendix C (pools, door, fake test process) is trusted; the property predicates are the TLA+ monitor's, evaluated by TLC on every event of every recorded execution; a corrupted copy of an accepted trace must be rejected in every run (binding self-test). Where the level is model_checking the algorithm model specs/traversal/Traversal.tla (constants extracted from graphs parsed by the current tree) is explored exhaustively on small instances with the property's invariant - all interleavings at await granularity, all PASS/FAIL placements, all shared-pool populations, bounded back-offs, default reuse scope, untimed - and a sample of the recorded executions is validated step by step against the same model (DESIGN 10.3, 10.4)",
        technique="TLA+ algorithm model explored exhaustively by TLC + randomized schedules of the real code in virtual time validated by TLC against the TLA+ monitor and, fine-grained, against the algorithm model",
        design_ref='6/C03',
    ),
    "C04": dict(
        engine="traversal",
        level="model_checking",
        text='recorded real traversals in virtual time with durations within the timeout (two timeout regimes, retries) are validated by TLC against TraversalObs: at every start/prestart the number of other workers of the scope executing the same test (creation pre-step + install = one occupation) is below the limit',
        note="environment model of DESIGN appendix C (pools, door, fake test process) is trusted; the property predicates are the TLA+ monitor's, evaluated by TLC on every event of every recorded execution; a corrupted copy of an accepted trace must be rejected in every run (binding self-test). Where the level is model_checking the algorithm model specs/traversal/Traversal.tla (constants extracted from graphs parsed by the current tree) is explored exhaustively on small instances with the property's invariant - all interleavings at await granularity, all PASS/FAIL placements, all shared-pool populations, bounded back-offs, default reuse scope, untimed - and a sample of the recorded executions is validated step by step against the same model (DESIGN 10.3, 10.4)",
        technique="TLA+ algorithm model explored exhaustively by TLC + randomized schedules of the real code in virtual time validated by TLC against the TLA+ monitor and, fine-grained, against the algorithm model",
        design_ref='6/C04',
    ),
    "C05": dict(
        engine="traversal",
        level="model_checking",
        text='recorded real traversals of graphs with removable states (tutorial_gui/tutorial_get and whole chains made removable), lazy expansion, worker sets and pool filters are validated by TLC against TraversalObs: every unset request concerns a removable state with no dependant running or still to be executed; no sync with reuse/block',
        note="environment model of DESIGN appendix C (pools, door, fake test process) is trusted; the property predicates are the TLA+ monitor's, evaluated by TLC on every event of every recorded execution; a corrupted copy of an accepted trace must be rejected in every run (binding self-test). Where the level is model_checking the algorithm model specs/traversal/Traversal.tla (constants extracted from graphs parsed by the current tree) is explored exhaustively on small instances with the property's invariant - all interleavings at await granularity, all PASS/FAIL placements, all shared-pool populations, bounded back-offs, default reuse scope, untimed - and a sample of the recorded executions is validated step by step against the same model (DESIGN 10.3, 10.4)",
        technique="TLA+ algorithm model explored exhaustively by TLC + randomized schedules of the real code in virtual time validated by TLC against the TLA+ monitor and, fine-grained, against the algorithm model",
        design_ref='6/C05',
    ),
    "C08": dict(
        engine="traversal",
        level="exploration",
        text='recorded real traversals with mixed worker sets (restricted nets, lxc swarm, two remote clusters) are validated by TLC against TraversalObs: own-worker execution, named sources = shared pool + workers holding a passing result of the producer, with their access parameters',
        note="environment model of DESIGN appendix C (pools, door, fake test process) is trusted; the property predicates are the TLA+ monitor's, evaluated by TLC on every event of every recorded execution; a corrupted copy of an accepted trace must be rejected in every run (binding self-test). Where the level is model_checking the algorithm model specs/traversal/Traversal.tla (constants extracted from graphs parsed by the current tree) is explored exhaustively on small instances with the property's invariant - all interleavings at await granularity, all PASS/FAIL placements, all shared-pool populations, bounded back-offs, default reuse scope, untimed - and a sample of the recorded executions is validated step by step against the same model (DESIGN 10.3, 10.4)",
        technique="TLA+ algorithm model explored exhaustively by TLC + randomized schedules of the real code in virtual time validated by TLC against the TLA+ monitor and, fine-grained, against the algorithm model",
        design_ref='6/C08',
    ),
    "C10": dict(
        engine="traversal",
        level="model_checking",
        text='recorded real traversals over outcome sequences of 7 statuses x max_tries x rerun/stop subsets (valid and invalid) are validated by TLC against TraversalObs: retry rule at every start and at the end, identifier freshness, own results recorded, verdict = every executed test has an acceptable result; invalid settings must raise',
        note="environment model of DESIGN appendix C (pools, door, fake test process) is trusted; the property predicates are the TLA+ monitor's, evaluated by TLC on every event of every recorded execution; a corrupted copy of an accepted trace must be rejected in every run (binding self-test). Where the level is model_checking the algorithm model specs/traversal/Traversal.tla (constants extracted from graphs parsed by the current tree) is explored exhaustively on small instances with the property's invariant - all interleavings at await granularity, all PASS/FAIL placements, all shared-pool populations, bounded back-offs, default reuse scope, untimed - and a sample of the recorded executions is validated step by step against the same model (DESIGN 10.3, 10.4)",
        technique="TLA+ algorithm model explored exhaustively by TLC + randomized schedules of the real code in virtual time validated by TLC against the TLA+ monitor and, fine-grained, against the algorithm model",
        design_ref='6/C10',
    ),
    "C14": dict(
        engine="sequential-specs",
        level="model_checking",
        text="specs/pool/PoolLock.tla models processes x {upload, download, delete, download_link, upload_link} on one pool file with one action "
             "per wrapped system call (lock attempt/sleep/give up, compare, copy|unlink|symlink, unlock), SIGKILL at every point and a failing "
             "copy; TLC checks mutual exclusion, lock release after crash/exception, timeout-raises-without-copy, exact copies and link safety "
             "exhaustively for 2-3 processes over all initial contents. TLC behaviours are replayed with real processes, real fcntl locks and "
             "real SIGKILL on a scratch directory, the children being stopped at each wrapped call so that the interleaving is TLC's; lock "
             "holder, contents and link status are compared after every step and critical-section overlap is checked on the observations",
        note="interleavings are forced at system-call granularity through wrappers on pool.fcntl/time/shutil/os and TransferOps.compare_*; "
             "remote (ssh) transfers take no lock in the code and are out of scope; fault enumeration is part of the model",
        technique="TLA+ spec + TLC exhaustive (crash/fault at every step), behaviours replayed with real processes and locks",
        design_ref="6/C14",
    ),
    "C06": dict(
        engine="parse",
        level="model_checking",
        text='real parses (eager for several selections x worker sets incl. clones/permanent vm/clusters; lazy expansion during real traversals) are recorded as parse events + final snapshot and replayed by TLC against specs/parse/GraphParse.tla: every event is a spec action, structural checks after each, and WellFormed per graph (unique identity, both-ends edges equal to the events, one starting node reaching all, acyclic, exactly one producing parent per required state for the same worker and object, one net and the named vms, clone sources not runnable)',
        note="selections/worker sets of the shipped sample suite with one variant per vm; plus generated suites (vf/parse/gensuite.py: random setup DAGs and product tests, incl. multi-producer dependencies, on the shipped object-creation/customize/connect base; the generator's own declaration checks the resolver); TLC's role is the evaluation of the spec's invariants over recorded parses (parsing is deterministic)",
        technique="recorded parse traces of the real parser validated by TLC against a TLA+ specification of well-formed graphs; independent resolver as oracle for C07",
        design_ref='6/C06',
    ),
    "C07": dict(
        engine="parse",
        level="model_checking",
        text="per selection and worker the class-level dependency edges of the real parse are compared by TLC (GraphParse.AsDeclared, OncePerWorker) with the edges derived by an independent resolver that uses only virttest.cartesian_config.Parser on the suite's files (own composition, own per-object parameter view, producers = variants of all..<get> setting the required state, cloning rule for multi-producer dependencies)",
        note="selections/worker sets of the shipped sample suite with one variant per vm; plus generated suites (vf/parse/gensuite.py: random setup DAGs and product tests, incl. multi-producer dependencies, on the shipped object-creation/customize/connect base; the generator's own declaration checks the resolver); TLC's role is the evaluation of the spec's invariants over recorded parses (parsing is deterministic)",
        technique="recorded parse traces of the real parser validated by TLC against a TLA+ specification of well-formed graphs; independent resolver as oracle for C07",
        design_ref='6/C07',
    ),
    "C09": dict(
        engine="parse",
        level="model_checking",
        text='TLC (GraphParse.Linked, SameAsReference) validates on real parses: bridging symmetric, complete, only between equivalent nodes of different workers, registers shared; per-worker class sets and edges equal; graphs after real lazy traversals under random schedules have, for every expanded test, exactly the eager dependencies and nothing selected left unexpanded; a second parse equals the first',
        note="selections/worker sets of the shipped sample suite with one variant per vm; plus generated suites (vf/parse/gensuite.py: random setup DAGs and product tests, incl. multi-producer dependencies, on the shipped object-creation/customize/connect base; the generator's own declaration checks the resolver); TLC's role is the evaluation of the spec's invariants over recorded parses (parsing is deterministic)",
        technique="recorded parse traces of the real parser validated by TLC against a TLA+ specification of well-formed graphs; independent resolver as oracle for C07",
        design_ref='6/C09',
    ),
    "C15": dict(
        engine="tools",
        level="model_checking",
        text="specs/tools/Update.tla defines over per-vm state derivation relations (independent resolver, remove set composed for the one vm) what an update request must do: rerun the tests producing the states on the path from..to (both included), every worker removes exactly that vm's states derived from the target, nothing else, unknown states rejected. TLC enumerates all requests (selections x valid pairs x unknown state x worker counts) and checks OnlySelected/PathNotRemoved/BothEndsIncluded/NothingBeforeStart/UnknownRejected; a seeded sample of the requests (all that fit the budget in the thorough tier) is executed on the real intertest_setup.update under the traversal environment and compared",
        note="test processes, state control and job are substituted at the seams the selftests use; every test passes; the sample suite's vm variants CentOS/Win10/Ubuntu",
        technique="TLA+ spec + TLC exhaustive enumeration of requests, transitions replayed on the real tools under the virtual-time environment",
        design_ref='6/C15',
    ),
    "C20": dict(
        engine="tools",
        level="model_checking",
        text='specs/tools/ManuChain.tla: (A) chain loop - each step once, in order, failure by non-zero return or exception reported as 1 without stopping; (B) tool call - state steps one test per selected vm per compatible worker, vm-management steps one test per compatible worker for all selected vms. TLC enumerates all chains up to the bound x outcome placements and all tool x selection x worker-set combinations; chains are executed on the real Manu.run with recording steps, tool calls on the real intertest_setup.<tool> under the traversal environment (executions per worker and vm, vm_action, a marker parameter and own-worker execution compared)',
        note="test processes, state control and job are substituted at the seams the selftests use; every test passes; the sample suite's vm variants CentOS/Win10/Ubuntu",
        technique="TLA+ spec + TLC exhaustive enumeration of requests, transitions replayed on the real tools under the virtual-time environment",
        design_ref='6/C20',
    ),
    "C11": dict(
        engine="sequential-specs",
        level="model_checking",
        text="specs/cmdline/CmdLine.tla folds an argument list like the tokenizing loop of params_from_cmd, adds the defaults and selects tests "
             "with its own restriction matcher (',' or, '..' followed by, '.' immediately followed by) over the universe of test variants read "
             "from the suite by the Cartesian parser alone. TLC enumerates every argument list up to the bound over a pool of "
             "only/no/only_vmX/no_vmX/vms/nets/only_nets/K=V/malformed arguments and checks default-iff-no-primary, intersection/exclusion and "
             "error reporting. Every final state is replayed into the real params_from_cmd and TestGraph.parse_flat_nodes: restriction "
             "strings, vm strings, selected vms, nets, overrides, the selected tests and the propagation of every K=V into every parsed test "
             "are compared; the matcher itself is cross-checked against the Cartesian parser",
        note="universe and defaults of the shipped sample suite; pool of 17 (quick) / 24 (thorough) arguments, lists up to length 2 / 3",
        technique="TLA+ spec + TLC exhaustive enumeration, every final state replayed on the implementation, three-way selection check",
        design_ref="6/C11",
    ),
}

NOT_YET = "machinery for this property is not built yet in this revision (see DESIGN.md section 9 build order)"


def build():
    checks = []
    for pid in ALL:
        if pid not in CLAIMS:
            continue
        c = CLAIMS[pid]
        checks.append({
            "property_id": pid,
            "quick_cmd": "./check %s --tier quick" % pid,
            "thorough_cmd": "./check %s --tier thorough" % pid,
            "evidence_file": "/verif/evidence/%s.json" % pid,
            "replay_cmd_template": "./check %s --replay {path}" % pid,
            "engine": c["engine"],
            "level_claimed": {"category": c["level"], "text": c["text"] + EXTRA_TEXT.get(pid, ""), "design_ref": "DESIGN.md section " + c["design_ref"]},
            "level_note": c["note"],
            "technique": c["technique"],
        })
    man = {
        "version": 1,
        "setup_cmd": "./setup.sh",
        "hooks": {
            "guard": "AVOCADO_I2N_VERIF",
            "enable": "no source hooks are needed: events are taken by wrappers the harness installs around public methods of the imported "
                      "working tree of /repo (AVOCADO_I2N_VERIF=1 is reserved and set by the harness, nothing in /repo reads it)",
            "baseline_off_cmd": "cd /repo && env -u AVOCADO_I2N_VERIF /venv/bin/python -m pytest -ra -q -p no:cacheprovider --timeout=900 "
                                "--continue-on-collection-errors --junitxml=/tmp/baseline_off.junit.xml",
            "source_commits": [],
            "add_only": True,
        },
        "engines": [
            {"name": "sequential-specs", "path": "/verif/specs/{vmstate,vmnet,index,cmdline,states,pool}", "serves_properties":
                [p for p in ALL if p in CLAIMS and CLAIMS[p]["engine"] == "sequential-specs"],
             "kind_free_text": "small TLA+ state machines; TLC state graph dumped (-dump dot,actionlabels) and every transition / terminal "
                               "state executed on the real classes with the projected state compared"},
            {"name": "parse", "path": "/verif/specs/parse", "serves_properties": [p for p in ALL if p in CLAIMS and CLAIMS[p]["engine"] == "parse"],
             "kind_free_text": "TLA+ specification of well-formed parsed graphs; recorded parse events and snapshots of the real parser validated by TLC"},
            {"name": "tools", "path": "/verif/specs/tools", "serves_properties": [p for p in ALL if p in CLAIMS and CLAIMS[p]["engine"] == "tools"],
             "kind_free_text": "TLA+ specifications of the update tool and of manual step chains; TLC-enumerated requests executed on the real tools"},
            {"name": "traversal", "path": "/verif/specs/traversal", "serves_properties":
                [p for p in ALL if p in CLAIMS and CLAIMS[p]["engine"] == "traversal"],
             "kind_free_text": "TLA+ model of the multi-worker graph traversal + virtual-time harness driving the real "
                               "traverse_object_trees; recorded traces validated by TLC, TLC behaviours replayed as schedules"},
        ],
        "checks": checks,
        "not_applicable": [{"property_id": p, "reason": NOT_YET} for p in ALL if p not in CLAIMS],
        "notes": "Single entry point ./check <ID> --tier quick|thorough; VERIF_SEED seeds all random choices. Exit 2 = machinery failure. "
                 "Known findings: /verif/known_findings.json.",
    }
    with open(os.path.join(VERIF, "MANIFEST.json"), "w") as f:
        json.dump(man, f, indent=1)
    return man


if __name__ == "__main__":
    m = build()
    print("MANIFEST.json: %d checks, %d not_applicable" % (len(m["checks"]), len(m["not_applicable"])))
