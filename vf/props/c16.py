"""C16 - name lookups (PrefixTree) and visit counters (EdgeRegister) are exact.

specs/index/NameIndex.tla builds the trie as the implementation does next to the naive definition;
TLC checks lookup = naive scan for every query after every insertion sequence (exhaustive for small
constants, simulation for larger ones).  Every transition of the dumped state graph (transition
cover) and every simulated behaviour is replayed on the real PrefixTree / EdgeRegister; after each
step the real trie's structure is projected to the spec's variables (nodes, ends) and all queries
(get, `in`) and all counter/worker read-outs are compared.
"""
import itertools
import os
import random
import time

from .. import common as C
from ..tlaval import tla

PID = "C16"


DIVERGED = []


class StubNode:
    def __init__(self, name):
        self.params = {"name": name}
        self.bridged_form = name

    def __repr__(self):
        return "<%s>" % self.params["name"]


class StubWorker:
    def __init__(self, wid):
        self.id = wid


def trie_projection(tree):
    """(set of paths, set of end paths) of a real PrefixTree"""
    allnodes = {id(n): n for lst in tree.variant_nodes.values() for n in lst}
    children = {id(c) for n in allnodes.values() for c in n.children.values()}
    roots = [n for i, n in allnodes.items() if i not in children]
    paths, ends = set(), set()

    def walk(n, path):
        path = path + (n.variant,)
        paths.add(path)
        if n.end_test_node is not None:
            ends.add(path)
        for v, c in n.children.items():
            assert c.variant == v
            walk(c, path)

    for r in roots:
        walk(r, ())
    # every node must be registered under its own variant exactly once
    for v, lst in tree.variant_nodes.items():
        assert all(n.variant == v for n in lst), "variant_nodes registers a node under a wrong variant"
        assert len({id(n) for n in lst}) == len(lst), "variant_nodes registers a node twice"
    return paths, ends


def contains_run(name, q):
    return any(name[o:o + len(q)] == q for o in range(len(name) - len(q) + 1))


def replay_behaviour(beh, alphabet, forms, workers, v, tag):
    """beh: list of states (dicts, first is Init). Returns number of compared steps."""
    from avocado_i2n.cartgraph.node import PrefixTree, EdgeRegister
    tree, reg = PrefixTree(), EdgeRegister()
    nodes_by_name = {}
    queries = [q for k in (1, 2, 3) for q in itertools.product(alphabet, repeat=k)]
    fnodes = {f: StubNode(f) for f in forms}
    wobjs = {w: StubWorker(w) for w in workers}
    steps = 0
    history = []
    for st in beh[1:]:
        last = st["last"]
        op = str(last["op"])
        if op == "insert":
            name = tuple(str(x) for x in last["name"])
            history.append(("insert", ".".join(name)))
            nodes_by_name[name] = StubNode(".".join(name))
            tree.insert(nodes_by_name[name])
        else:
            f, w = str(last["form"]), str(last["worker"])
            history.append(("register", f, w))
            reg.register(fnodes[f], wobjs[w])
        steps += 1
        problems = []
        # structure (internal: a mismatch alone is a conformance note, not a violation of the property)
        try:
            paths, ends = trie_projection(tree)
            exp_nodes = {tuple(str(x) for x in p) for p in st["nodes"]}
            exp_ends = {tuple(str(x) for x in p) for p in st["ends"]}
            if paths != exp_nodes or ends != exp_ends:
                DIVERGED.append("trie structure differs from the spec's after %s" % (history[-1],))
        except Exception as ex:
            DIVERGED.append("trie structure could not be projected: %s" % ex)
        inserted = {tuple(str(x) for x in n) for n in st["inserted"]}
        for q in queries:
            qs = ".".join(q)
            got = [n.params["name"] for n in tree.get(qs)]
            exp = sorted(".".join(n) for n in inserted if contains_run(n, q))
            if sorted(got) != exp:
                problems.append("get(%s)=%s expected %s" % (qs, sorted(got), exp))
            if (qs in tree) != bool(exp):
                problems.append("(%s in tree)=%s expected %s" % (qs, qs in tree, bool(exp)))
        # registers
        sreg = {str(f): {str(w): c for w, c in ws.items()} for f, ws in st["reg"].items()}
        for f in list(forms) + [None]:
            for w in list(workers) + [None]:
                exp = sum(sreg[ff][ww] for ff in ([f] if f else forms) for ww in ([w] if w else workers))
                got = reg.get_counters(fnodes[f] if f else None, wobjs[w] if w else None)
                if got != exp:
                    problems.append("get_counters(%s,%s)=%s expected %s" % (f, w, got, exp))
            expw = {ww for ff in ([f] if f else forms) for ww in workers if sreg[ff][ww] > 0}
            gotw = set(reg.get_workers(fnodes[f] if f else None))
            if gotw != expw:
                problems.append("get_workers(%s)=%s expected %s" % (f, sorted(gotw), sorted(expw)))
        if problems:
            kind = "lookup" if op == "insert" else "register"
            v.violation("%s %s" % (kind, tag), "; ".join(problems[:4]), {"history": history, "problems": problems[:20]})
            return steps
    return steps


def write_cfg(path, setv, variants, maxlen, maxins, forms, workers, maxregs):
    with open(path, "w") as f:
        f.write("SPECIFICATION Spec\nCONSTANTS\n SetVariants = %s\n Variants = %s\n MaxLen = %d\n MaxInserts = %d\n"
                " Forms = %s\n Workers = %s\n MaxRegs = %d\n" % (tla(set(setv)), tla(set(variants)), maxlen, maxins,
                                                                 tla(set(forms)), tla(set(workers)), maxregs))
        f.write("INVARIANT LookupExact\nINVARIANT MembershipAgrees\nINVARIANT EndsAreNames\nINVARIANT CountersExact\n"
                "INVARIANT WorkersExact\nINVARIANT OrderIndependent\nCHECK_DEADLOCK FALSE\n")


def run(tier, seed):
    t0 = time.time()
    C.repo_python_setup()
    import unittest_importer  # noqa: F401
    work = C.build_dir(PID, wipe=True)
    C.stage_specs(work, os.path.join(C.SPECS, "index"))
    v = C.Verdict(PID)
    states = transitions = replayed = steps = 0
    instances, samples = [], []
    quick = tier == "quick"
    exhaustive = [
        # (name, set variants, variants, maxlen, maxinserts, forms, workers, maxregs)
        ("trie", ["S1", "S2"], ["a", "b", "c"], 2 if quick else 3, 3, ["f1"], ["w1"], 0),
        ("register", ["S1"], ["a"], 0, 0, ["f1", "f2"], ["w1", "w2"], 4 if quick else 5),
    ]
    for name, setv, variants, maxlen, maxins, forms, workers, maxregs in exhaustive:
        cfg = "MC_%s.cfg" % name
        write_cfg(os.path.join(work, cfg), setv, variants, maxlen, maxins, forms, workers, maxregs)
        dump = os.path.join(work, "graph_" + name)
        r = C.run_tlc(work, "NameIndex", cfg, dump=dump, timeout=3000)
        if not r.ok:
            raise C.MachineryError("TLC reports a problem in the NameIndex model itself (%s): %s" % (name, r.errors[:5]))
        states += r.distinct
        transitions += r.generated
        g = C.StateGraph(dump + ".dot")
        os.unlink(dump + ".dot")
        paths = g.cover_paths()
        for p in paths:
            beh = [g.states[p[0]]] + [g.states[sid] for _, sid in p[1:]]
            steps += replay_behaviour(beh, setv + variants, forms, workers, v, name)
            replayed += 1
        instances.append({"instance": name, "distinct_states": r.distinct, "edges": len(g.edges), "cover_paths": len(paths),
                          "constants": {"SetVariants": setv, "Variants": variants, "MaxLen": maxlen, "MaxInserts": maxins,
                                        "Forms": forms, "Workers": workers, "MaxRegs": maxregs}})
        if paths:
            p = max(paths, key=len)
            samples.append({"instance": name, "operations": [C.tlaval.plain(g.states[sid]["last"]) for _, sid in p[1:]]})
    # larger constants by simulation: behaviours written by TLC, replayed on the implementation
    sim_cfg = ("sim", ["S1", "S2"], ["a", "b", "c", "d"], 3, 6 if quick else 8, ["f1", "f2"], ["w1", "w2", "w3"], 6 if quick else 8)
    name, setv, variants, maxlen, maxins, forms, workers, maxregs = sim_cfg
    write_cfg(os.path.join(work, "MC_sim.cfg"), setv, variants, maxlen, maxins, forms, workers, maxregs)
    nsim = 150 if quick else 1500
    r, behs = C.simulate(work, "NameIndex", "MC_sim.cfg", nsim, maxins + maxregs + 1, seed + 1, timeout=3000)
    if r.violated:
        raise C.MachineryError("TLC simulation reports a problem in the NameIndex model itself: %s" % r.errors[:5])
    for beh in behs:
        steps += replay_behaviour([s for _, s in beh], setv + variants, forms, workers, v, "sim")
        replayed += 1
    instances.append({"instance": "sim", "behaviours": len(behs), "depth": maxins + maxregs + 1})
    rc = v.finish()
    for dv in sorted(set(DIVERGED))[:3]:
        C.log("CONFORMANCE-DIVERGED (lookups and counters still agree with the spec): %s" % dv)
    C.write_evidence(PID, tier, seed, "model_checking", {
        "conformance": "accepted" if not DIVERGED else "internal structure diverged in %d steps" % len(DIVERGED),
        "states": states, "transitions": transitions, "traces_validated_against_impl": replayed,
        "samples": samples, "exhaustive": True, "implementation_steps_compared": steps, "instances": instances,
        "rule": "transition cover of the exhaustive TLC state graphs (every labelled edge on some replayed path) plus TLC -simulate "
                "behaviours for larger constants; after each step: projected trie structure = spec nodes/ends, get()/in for all "
                "queries of length <= 3 over the alphabet, get_counters/get_workers for all argument combinations incl. omitted ones",
    }, ["names are parser-shaped (set variant first, no variant repeated), as the property states",
        "test nodes and workers are stubs carrying only params['name'] / bridged_form / id"],
        time.time() - t0, len(v.violations))
    return rc
