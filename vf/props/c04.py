"""C04 - a test is never executed by more workers of one scope at the same time than allowed.

Real traversals in virtual time with durations within the timeout budget (no overrun, no lost result),
2-4 workers converging on shared setup, max_tries / max_concurrent_tries variants, two timeout regimes
(bounce period 0.1 s against test timeouts of 100 s and of 1 s).  TLC validates at every start that the
number of other workers of the scope running the same test (creation pre-step + install = one occupation)
is below the limit.
"""
from ..sched import driver as D

PID = "C04"


def make_jobs(inst, rng, n):
    jobs = []
    to = float(inst.params.get("test_timeout", 100))
    durs = [to * x for x in (0.0005, 0.002, 0.01, 0.05, 0.2, 0.6, 0.95)]
    for i in range(n):
        mt = rng.choice([1, 1, 1, 2, 3])
        rp = {}
        dd = durs
        if i % 3 == 0:
            # retries with a concurrency limit below the number of workers and long tries: the occupier legitimately holds
            # the node for several tries in a row
            mt = rng.choice([2, 3, 4])
            rp["max_concurrent_tries"] = "1"
            dd = durs[-3:]
        if inst.lazy and i % 4 == 1:
            # narrowed reuse scopes: occupation is then per worker (lxc without swarm) or per swarm (remote without cluster)
            rp["pool_scope"] = rng.choice(["own shared", "own swarm shared", "own cluster shared", "own"])
        if mt > 1:
            rp["max_tries"] = str(mt)
            if "max_concurrent_tries" not in rp and rng.random() < 0.5:
                rp["max_concurrent_tries"] = str(rng.randint(1, mt))
        jobs.append({"sched": {"seed": rng.randrange(1 << 30), "statuses": ["PASS", "FAIL"], "weights": [5, 1], "durations": dd},
                     "store": D.random_store(inst, rng, rng.choice([0.0, 0.3])), "run_params": rp, "cap": 8000})
    return jobs


def signature(inst, res, f):
    d = f["detail"]
    return "%s %s timeout=%s escalated=%s" % (d[0], "creation-node" if inst.const["tests"][d[1]]["objroot"] else "test",
                                            inst.params.get("test_timeout"),
                                            any(e["a"] == "bounce" and e.get("mct") not in ("", None) for e in res["events"]))


def describe(inst, res, f):
    d = f["detail"]
    return "%s executed concurrently by %s (scope %s, instance %s, run params %s, event %d)" % (
        D.short(inst, d[1]), d[3] if len(d) > 3 else d[2], d[2], inst.name, res["job"].get("run_params"), f["event"])


def run(tier, seed):
    quick = tier == "quick"
    plan = [("tut13x3", None, 32), ("tut13x3", {"test_timeout": 1}, 32), ("guix2", None, 16), ("tut13c", None, 24), ("tut13mix", None, 24)] if quick else \
           [("tut13x3", None, 300), ("tut13x3", {"test_timeout": 1}, 300), ("tut13x4", None, 200), ("tut13x4", {"test_timeout": 1}, 200),
            ("guix2", None, 200), ("guix3e", {"test_timeout": 1}, 200), ("tut13c", None, 200), ("tut1c", {"test_timeout": 1}, 200), ("tut13mix", None, 200)]
    return D.generic_run(PID, tier, seed, plan, make_jobs, signature, describe, explore_plan=D.explore_plan(tier, ['NoC04'], retries=True),
                         rule="randomized durations within the timeout, wake-up orders induced by them, max_tries/max_concurrent_tries variants, pool_scope subsets, lxc and remote workers, "
                              "timeouts 100 s and 1 s (bounce 0.1 s); TLC validates the concurrency bound at every start/prestart",
                         assumptions=["no execution overruns its timeout and no result is lost (the property's own premise)"])


def replay(path):
    return D.replay(PID, path)
