"""C15 - the update tool reruns exactly the requested path and drops only its dependants.

specs/tools/Update.tla defines, over per-vm state derivation relations obtained by the independent resolver
(remove set composed for the one vm, as the tool does), what an update request must do; TLC enumerates every
request (vm selections x (from, to) pairs along the chains x unknown states x worker counts) and checks the
properties of the expected effect.  A sample of the requests (all of them in the thorough tier, as far as the
budget allows) is executed on the real intertest_setup.update under the traversal environment: executed tests
(by the states they produce), unset requests per worker and rejections are compared with the spec.
"""
import os
import sys
import random
import time

from .. import common as C
from ..tlaval import tla

PID = "C15"
VM_VARIANT = {"vm1": "CentOS", "vm2": "Win10", "vm3": "Ubuntu"}
NETS = ["net1", "net2", "net3"]


def oracle(vms):
    from ..parse import run as R, graphsnap as S
    states, dep, addr = {}, {}, {}
    for vm in vms:
        r = S.Resolver(C.REPO, VM_VARIANT, force_vm=vm)
        seen, edges = set(), set()
        for name, _ in R.leaf_vms(C.REPO, "leaves"):
            r.resolve(name, [vm], seen, edges)
        st, dp, ad = set(), set(), set()
        for k, v in r.states.items():
            for ok, sc in v["sets"].items():
                st.add(sc)
                # the tool addresses a state through the setup test of the same name (all..<state>)
                if k.split("@")[0].split(".")[-1] == sc or (sc == "install" and "original" in k):
                    ad.add(sc)
                for ok2, sp in v["gets"].items():
                    dp.add((sc, sp))
        states[vm], dep[vm], addr[vm] = st, dp, ad
    return states, dep, addr


def _run_request(args):
    """child process: one real update"""
    req, nworkers = args
    C.repo_python_setup()
    import unittest_importer  # noqa: F401
    from ..tools import harness as T
    from ..sched import harness as H
    sel = sorted(v for v in req if req[v] != ("-", "-"))
    cfg = T.base_config(" ".join(NETS[:nworkers]), {v: "only %s\n" % VM_VARIANT[v] for v in sel})
    for v in sel:
        cfg["vms_params"]["from_state_" + v] = req[v][0]
        cfg["vms_params"]["to_state_" + v] = req[v][1]
    out = T.run_tool("update", cfg, {}, H.Schedule(1, durations=(0.2, 1.0, 3.0)), tag="1r")
    execs, unsets = set(), {}
    for e in out["events"]:
        if e["a"] == "endrun":
            for s in e.get("sets", []):
                o, st = s.split(":", 1)
                execs.add((o.split("_")[-1], st))
        if e["a"] == "unset":
            for s in e.get("req", []):
                o, st = s.split(":", 1)
                unsets.setdefault(e["w"], set()).add((o.split("_")[-1], st))
    nexec = sum(1 for e in out["events"] if e["a"] == "start")
    return {"exc": out["exc"], "retcode": out["retcode"], "execs": sorted(execs), "unsets": {w: sorted(x) for w, x in unsets.items()},
            "nexec": nexec, "prestarts": sum(1 for e in out["events"] if e["a"] == "prestart")}


def fork_map(fn, items, par=None):
    """fn(item) in one forked child per item (results of any size: passed through files, not pipes)"""
    import json as js
    import tempfile
    par = par or C.NCPU
    res = [None] * len(items)
    os.makedirs(C.BUILD, exist_ok=True)
    tmp = tempfile.mkdtemp(prefix="forkmap_", dir=C.BUILD)
    pending, running = list(enumerate(items)), {}
    try:
        while pending or running:
            while pending and len(running) < par:
                i, it = pending.pop(0)
                out = os.path.join(tmp, "r%d.json" % i)
                sys.stdout.flush()
                pid = os.fork()
                if pid == 0:
                    try:
                        try:
                            val = fn(it)
                            data = js.dumps(val)
                        except BaseException:
                            import traceback
                            data = js.dumps({"harness_error": traceback.format_exc()[-1500:]})
                        with open(out, "w") as f:
                            f.write(data)
                    finally:
                        os._exit(0)
                running[pid] = (i, out)
            pid, _ = os.wait()
            if pid in running:
                i, out = running.pop(pid)
                try:
                    with open(out) as f:
                        res[i] = js.load(f)
                except Exception:
                    res[i] = {"harness_error": "no output"}
    finally:
        import shutil
        shutil.rmtree(tmp, ignore_errors=True)
    return res


def run(tier, seed):
    t0 = time.time()
    C.repo_python_setup()
    import unittest_importer  # noqa: F401
    work = C.build_dir(PID, wipe=True)
    C.stage_specs(work, os.path.join(C.SPECS, "tools"))
    v = C.Verdict(PID)
    rng = random.Random(seed)
    quick = tier == "quick"
    vms = ["vm1", "vm2"]
    states, dep, addr = oracle(vms)
    with open(os.path.join(work, "MC_Update.tla"), "w") as f:
        f.write("---- MODULE MC_Update ----\nEXTENDS Update\nMCStatesOf == %s\nMCDep == %s\nMCAddr == %s\n====\n"
                % (tla({vm: set(states[vm]) for vm in vms}), tla({vm: {tuple(d) for d in dep[vm]} for vm in vms}), tla({vm: set(addr[vm]) for vm in vms})))
    with open(os.path.join(work, "MC_Update.cfg"), "w") as f:
        f.write("SPECIFICATION Spec\nCONSTANTS\n VMs = %s\n StatesOf <- MCStatesOf\n Addressable <- MCAddr\n Dep <- MCDep\n Workers = %s\n Bogus = \"nosuchstate\"\n"
                % (tla(set(vms)), tla({1, 2, 3})))
        f.write("INVARIANT OnlySelected\nINVARIANT PathNotRemoved\nINVARIANT BothEndsIncluded\nINVARIANT NothingBeforeStart\nINVARIANT UnknownRejected\nCHECK_DEADLOCK FALSE\n")
    dump = os.path.join(work, "graph")
    r = C.run_tlc(work, "MC_Update", "MC_Update.cfg", dump=dump, timeout=3000)
    if not r.ok:
        raise C.MachineryError("TLC reports a problem in the Update model itself: %s" % r.errors[:5])
    g = C.StateGraph(dump + ".dot")
    os.unlink(dump + ".dot")
    edges = list(g.edges)
    rng.shuffle(edges)
    # always include the default request and one per kind, then a random sample
    n = 12 if quick else 160

    def both_on_three(e):
        pre = g.states[e[0]]
        return int(pre["nworkers"]) == 3 and all(tuple(map(str, x)) != ("-", "-") for x in pre["req"].values()) and not g.states[e[1]]["out"]["error"]
    # three workers with every vm selected (copies of a path test exist for three workers) are always part of the sample
    first = [e for e in edges if both_on_three(e)][:3 if quick else 30]
    chosen = first + [e for e in edges if e not in first][:n - len(first)]
    items, expects = [], []
    for s, d, a in chosen:
        pre, post = g.states[s], g.states[d]
        req = {str(vm): (str(x[0]), str(x[1])) for vm, x in pre["req"].items()}
        items.append((req, int(pre["nworkers"])))
        expects.append(post["out"])
    results = fork_map(_run_request, items)
    samples = []
    nrep = 0
    for (req, nw), exp, got in zip(items, expects, results):
        desc = {"request": {k: list(x) for k, x in req.items()}, "workers": nw}
        if "harness_error" in got:
            raise C.MachineryError("update run failed in the harness: %s" % got["harness_error"])
        nrep += 1
        sel = sorted(k for k, x in req.items() if x != ("-", "-"))
        sig = "update sel=%s workers=%d" % ("+".join(sel), nw)
        if exp["error"]:
            if not got["exc"]:
                v.violation(sig + " unknown-state-accepted", "request %s with an unknown state was not rejected (executed %s)" % (req, got["execs"]),
                            dict(desc, got=got))
            continue
        if got["exc"]:
            v.violation(sig + " raises", "valid request %s raised %s" % (req, got["exc"]), dict(desc, got=got))
            continue
        e_execs = sorted([str(p[0]), str(p[1])] for p in exp["execs"])
        e_unsets = sorted([str(p[0]), str(p[1])] for p in exp["unsets"])
        problems = []
        if sorted(map(list, got["execs"])) != e_execs:
            problems.append("executed %s, expected the path %s" % (got["execs"], e_execs))
        if got["nexec"] != len(e_execs):
            problems.append("%d executions for %d path states" % (got["nexec"], len(e_execs)))
        for w in NETS[:nw]:
            gu = sorted(map(list, got["unsets"].get(w, [])))
            if gu != e_unsets:
                problems.append("worker %s removed %s, expected %s" % (w, gu, e_unsets))
        if problems:
            kind = "executions" if "executed" in problems[0] or "executions" in problems[0] else "removals"
            v.violation(sig + " " + kind, "; ".join(problems[:2]), dict(desc, got=got, problems=problems))
        if len(samples) < 3:
            samples.append(dict(desc, expected_executed=e_execs, expected_removed=e_unsets))
    rc = v.finish()
    C.write_evidence(PID, tier, seed, "model_checking", {
        "states": r.distinct, "transitions": r.generated, "traces_validated_against_impl": nrep, "samples": samples,
        "requests_in_model": len(edges), "requests_executed_on_implementation": nrep, "exhaustive": nrep == len(edges),
        "state_relations": {vm: sorted(map(list, dep[vm])) for vm in vms},
        "rule": "TLC enumerates all requests (selection x valid (from,to) pairs x one unknown state x worker count) and checks the expected effect; "
                "a seeded random sample of the transitions is executed on intertest_setup.update (each run parses several graphs, 20-40 s)",
    }, ["state derivation per vm comes from the independent resolver over the shipped suite with the remove set 'leaves'",
        "every test passes; pools start empty (removal requests are observed at the state-control seam)"],
        time.time() - t0, len(v.violations))
    return rc
