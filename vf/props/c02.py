"""C02 - traversal terminates and every selected test gets a definite result.

Real traversals under randomized timing and outcomes (PASS/FAIL/ERROR/WARN/SKIP, results never reported),
retry settings, worker sets incl. workers whose restrictions exclude tests, initial pools, dry runs.  A
mandatory watchdog bounds the number of traversal steps.  TLC validates: no traversal error, every worker
back at the start, nothing left running or pending, every selected compatible test executed (or its
states found) unless dry run, nothing executed or changed in a dry run.
"""
from ..sched import driver as D

PID = "C02"


def make_jobs(inst, rng, n):
    jobs = []
    for i in range(n):
        mt = rng.choice([1, 1, 2, 3])
        rp = {"max_tries": str(mt)} if mt > 1 else {}
        lost = 0.0
        if float(inst.params.get("test_timeout", 100)) >= 3600:
            lost = 0.1
        if i % 10 == 9:
            rp = {"dry_run": "yes"}
        persist = {}
        objroots = sorted(t for t, e in inst.const["tests"].items() if e["objroot"])
        if i % 8 == 5 and objroots:
            # an object creation whose pre-step never succeeds, with retries enabled
            rp = {"max_tries": str(rng.choice([2, 3]))}
            if rng.random() < 0.5:
                rp["stop_status"] = "pass"
            persist = {"%s|pre" % rng.choice(objroots): rng.choice(["FAIL", "ERROR"])}
        elif i % 3 == 1:
            # persistent failure (or never-reported result) of one test or of one creation step
            t = rng.choice(sorted(inst.const["tests"]))
            kind = "pre" if inst.const["tests"][t]["objroot"] and rng.random() < 0.5 else "main"
            persist = {"%s|%s" % (t, kind): rng.choice(["FAIL", "ERROR", "LOST"] if lost else ["FAIL", "ERROR"])}
        jobs.append({"sched": {"seed": rng.randrange(1 << 30), "statuses": ["PASS", "FAIL", "ERROR", "WARN", "SKIP"], "weights": [8, 2, 1, 1, 1], "lost": lost, "persist": persist},
                     "store": D.random_store(inst, rng, rng.choice([0.0, 0.4, 0.8])), "run_params": rp, "cap": 20000 if lost else 6000, "lost": lost > 0})
    return jobs


def settings_of(job):
    return {"lost": False}


def signature(inst, res, f):
    d = f["detail"]
    rp = res["job"].get("run_params", {})
    retries = int(float(rp.get("max_tries", 1))) > 1
    pre_uids = [(e["w"], e["t"], e["uid"]) for e in res["events"] if e["a"] == "prestart"]
    reuse = len(pre_uids) != len(set(pre_uids))
    # the known livelock F-C02-1 is about a RETRY of an object creation (a main try was recorded before the repeated pre-step);
    # a creation whose pre-step is repeated although no main try ever happened is something else
    spun = {t for (w, t, u) in pre_uids if pre_uids.count((w, t, u)) > 1}
    tried = {e["t"] for e in res["events"] if e["a"] == "start"}       # main tries of the creation node by any worker
    untried = bool(spun) and not (spun & tried)
    if d[0] == "outcome":
        # the spinning pre-step may be slow in virtual time while another worker's bounces fill the tail of the trace
        creation = any(e["a"] == "prestart" for e in res["events"][-300:]) or any(pre_uids.count(x) >= 3 for x in set(pre_uids))
        return "outcome=%s retries=%s creation-pre-step-spinning=%s pre-step-uid-reused=%s%s" % (d[1], retries, creation, reuse, " without-any-main-try" if untried else "")
    if d[0] == "unknown-recorded":
        return "unknown-recorded lost-result=%s" % bool(res["job"].get("lost"))
    return "%s retries=%s pre-step-uid-reused=%s%s" % (d[0], retries, reuse, " without-any-main-try" if untried else "")


def describe(inst, res, f):
    return "%s (instance %s, run params %s, outcome %s, event %d)" % (f["detail"], inst.name, res["job"].get("run_params"), res["outcome"], f["event"])


def post(inst, good, traces, v):
    for r in good:
        if r["job"].get("run_params", {}).get("dry_run") == "yes":
            changed = {k: sorted(x) for k, x in r["final_store"].items() if sorted(x) != sorted(r["job"].get("store", {}).get(k, []))}
            doors = [e for e in r["events"] if e["a"] in ("unset", "sync", "start", "prestart")]
            if changed or doors:
                v.violation("dry-run-changed-something", "dry run executed or changed: %s %s" % (changed, doors[:3]),
                            {"instance": inst.name, "instance_params": inst.params, "job": r["job"]})


def run(tier, seed):
    quick = tier == "quick"
    slow = {"test_timeout": 3600}   # never-reported results: the runner waits 10 x 30 s; a long bounce period keeps the traces short
    plan = [("tut13x2", None, 40), ("tut13r", None, 30), ("guix2", None, 30), ("tut13x2", slow, 20), ("guigetx2", None, 20)] if quick else \
           [("tut13x2", None, 300), ("guigetx2", None, 250), ("guigetx3", None, 200), ("tut13x2", slow, 150), ("tut13x3", slow, 100), ("tut13x3", None, 300), ("tut13r", None, 250), ("guix2", None, 250), ("getx2", None, 200), ("tut13c", None, 200),
            ("tut1x1", None, 150), ("tut13x4", None, 150)]
    if not quick:
        # generated suites (random setup DAGs, vf/parse/gensuite.py)
        plan += [("gen:%d:%d" % (seed + 301 + i, 2 + i % 2), None, 150) for i in range(3)]
    return D.generic_run(PID, tier, seed, plan, make_jobs, signature, describe, explore_plan=D.explore_plan(tier, ['Completed'], lost=True), settings_of=settings_of, post=post,
                         rule="randomized timing/outcomes incl. never-reported results and persistent failure / persistent loss of one test or creation step, max_tries {1,2,3}, restricted workers, dry runs, initial pools; "
                              "step watchdog of 6000 events; TLC validates completion, definite results, executed-at-least-once, dry-run inertness")


def replay(path):
    return D.replay(PID, path)
