"""C11 - command line selections and overrides mean what the documentation says.

specs/cmdline/CmdLine.tla folds an argument list like params_from_cmd does, adds the defaults and selects tests with
its own restriction matcher over the universe of test variants (read from the suite by the Cartesian parser alone).
TLC enumerates every argument list up to the bound over a pool of only=/no=/only_vmX=/no_vmX=/vms=/nets=/only_nets=/
K=V/malformed arguments and checks default-iff-no-primary, intersection/exclusion and error reporting.  Every
(argument list, expected outcome) is replayed into the real params_from_cmd; the produced restriction strings, vm
strings, selected vms, nets and overrides are compared, the tests TestGraph.parse_flat_nodes yields for the produced
config are compared with the spec's selection (and with the Cartesian parser's own selection for the spec's
restriction lines - a three-way agreement), and every parsed test must carry every K=V override.
"""
import os
import random
import time

from .. import common as C
from ..tlaval import tla
from .c15 import fork_map

PID = "C11"


def E(s):
    """restriction string -> structured expression (alternatives / groups / variants)"""
    return [[g.split(".") for g in alt.split("..")] for alt in s.split(",")]


def estr(e):
    return ",".join("..".join(".".join(g) for g in alt) for alt in e)


POOL = [
    {"kind": "only", "expr": E("normal")}, {"kind": "only", "expr": E("tutorial1")}, {"kind": "only", "expr": E("normal..tutorial1")},
    {"kind": "only", "expr": E("tutorial1,tutorial2")}, {"kind": "only", "expr": E("quicktest.tutorial1")}, {"kind": "only", "expr": E("leaves")},
    {"kind": "only", "expr": E("nongui.tutorial1")}, {"kind": "only", "expr": E("tutorial2..names")},
    {"kind": "no", "expr": E("tutorial3")}, {"kind": "no", "expr": E("normal")}, {"kind": "no", "expr": E("quicktest.tutorial2,tutorial_gui")},
    {"kind": "only_vm", "vm": "vm1", "val": "Fedora"}, {"kind": "only_vm", "vm": "vm1", "val": ""}, {"kind": "no_vm", "vm": "vm2", "val": "Win7"},
    {"kind": "only_vm", "vm": "vm9", "val": "x"},
    {"kind": "vms", "list": ["vm1"]}, {"kind": "vms", "list": ["vm1", "vm2"]}, {"kind": "vms", "list": ["vm9"]},
    {"kind": "nets", "list": ["net1", "net2"]}, {"kind": "only_nets", "val": "cluster1"},
    {"kind": "kv", "key": "aaa", "val": "bbb"}, {"kind": "kv", "key": "ccc", "val": "d e"}, {"kind": "kv", "key": "aaa", "val": "zzz"},
    {"kind": "malformed"},
    # known and unknown vm names mixed in one selection
    {"kind": "vms", "list": ["vm1", "vm9"]}, {"kind": "vms", "list": ["vm9", "vm2"]},
]
QUICK_POOL = [0, 1, 2, 3, 4, 8, 9, 11, 12, 14, 15, 17, 18, 19, 20, 21, 23, 24]


def arg_string(a):
    k = a["kind"]
    if k in ("only", "no"):
        return "%s=%s" % (k, estr(a["expr"]))
    if k in ("only_vm", "no_vm"):
        return "%s_%s=%s" % (k.split("_")[0], a["vm"], a["val"])
    if k == "vms":
        return "vms=" + ",".join(a["list"])
    if k == "nets":
        return "nets=" + ",".join(a["list"])
    if k == "only_nets":
        return "only_nets=" + a["val"]
    if k == "kv":
        return "%s=%s" % (a["key"], a["val"].replace(" ", ","))
    return "ccc"


def universe():
    from virttest import cartesian_config
    p = cartesian_config.Parser()
    p.parse_file(os.path.join(C.REPO, "tp_folder", "configs", "sets.cfg"))
    p.parse_file(os.path.join(os.environ["HOME"], "avocado_overwrite_tests.cfg"))
    return [d["name"] for d in p.get_dicts()]


def cartesian_select(lines):
    from virttest import cartesian_config
    p = cartesian_config.Parser()
    p.parse_file(os.path.join(C.REPO, "tp_folder", "configs", "sets.cfg"))
    p.parse_file(os.path.join(os.environ["HOME"], "avocado_overwrite_tests.cfg"))
    for op, expr in lines:
        p.parse_string("%s %s\n" % (op, estr(expr)))
    return sorted(d["name"] for d in p.get_dicts())


def _replay(item):
    """child: one argument list through the real code"""
    argstrs, want_selection = item
    C.repo_python_setup()
    import unittest_importer  # noqa: F401
    import avocado_i2n.cmd_parser as cmd
    from avocado_i2n.cartgraph import TestGraph
    config = {"params": list(argstrs)}
    try:
        cmd.params_from_cmd(config)
    except ValueError as ex:
        return {"error": "ValueError", "msg": str(ex)[:200]}
    except Exception as ex:
        return {"error": type(ex).__name__, "msg": str(ex)[:200]}
    out = {"error": None, "tests_str": config["tests_str"], "vm_strs": config["vm_strs"], "vms": config["vms_params"]["vms"],
           "param_dict": dict(config["param_dict"])}
    if want_selection:
        try:
            nodes = TestGraph.parse_flat_nodes(config["tests_str"], config["param_dict"])
            out["selected"] = sorted(n.params["name"] for n in nodes)
            missing = []
            for n in nodes:
                for k, val in config["param_dict"].items():
                    if n.params.get(k) != val:
                        missing.append([n.params["name"], k, n.params.get(k)])
            out["missing_overrides"] = missing[:5]
        except Exception as ex:
            out["selected_error"] = "%s: %s" % (type(ex).__name__, str(ex)[:200])
    return out


def run(tier, seed):
    t0 = time.time()
    C.repo_python_setup()
    import unittest_importer  # noqa: F401
    work = C.build_dir(PID, wipe=True)
    C.stage_specs(work, os.path.join(C.SPECS, "cmdline"))
    v = C.Verdict(PID)
    rng = random.Random(seed)
    quick = tier == "quick"
    pool = [POOL[k] for k in QUICK_POOL] if quick else POOL
    maxlen = 2 if quick else 3
    uni = universe()
    with open(os.path.join(work, "MC_Cmd.tla"), "w") as f:
        f.write("---- MODULE MC_Cmd ----\nEXTENDS CmdLine\nMCUniverse == %s\nMCPool == <<%s>>\n"
                "MCVMsAvail == <<\"vm1\", \"vm2\", \"vm3\">>\nMCDefaultVM == [vm1 |-> \"CentOS\", vm2 |-> \"Win10\", vm3 |-> \"Ubuntu\"]\n"
                "MCNetsOf == [cluster1 |-> <<\"cluster1.net6\", \"cluster1.net7\", \"cluster1.net8\", \"cluster1.net9\">>]\n====\n"
                % (tla({tuple(n.split(".")) for n in uni}), ",\n".join(tla(a) for a in pool)))
    with open(os.path.join(work, "MC_Cmd.cfg"), "w") as f:
        f.write("SPECIFICATION Spec\nCONSTANTS\n Universe <- MCUniverse\n MainRestr = {\"all\", \"nonleaves\", \"leaves\", \"normal\", \"minimal\"}\n"
                " DefaultOnly = \"normal\"\n VMsAvail <- MCVMsAvail\n DefaultVM <- MCDefaultVM\n NetsOf <- MCNetsOf\n ArgPool <- MCPool\n MaxLen = %d\n"
                "INVARIANT DefaultIffNoPrimary\nINVARIANT Intersects\nINVARIANT ErrorsReported\nCHECK_DEADLOCK FALSE\n" % maxlen)
    dump = os.path.join(work, "graph")
    r = C.run_tlc(work, "MC_Cmd", "MC_Cmd.cfg", dump=dump, timeout=7000, heap="12g")
    if not r.ok:
        raise C.MachineryError("TLC reports a problem in the CmdLine model itself: %s" % r.errors[:5])
    g = C.StateGraph(dump + ".dot")
    os.unlink(dump + ".dot")
    finals = [st for st in g.states.values() if st["out"].get("done") is True]
    rng.shuffle(finals)
    if not quick:
        finals = finals[:6000]
    items, exps = [], []
    for st in finals:
        args = [pool[k - 1] for k in st["args"]]
        items.append(([arg_string(a) for a in args], True))
        exps.append((args, st["out"]))
    results = fork_map(_replay, items)
    samples, nrep, three_way = [], 0, 0
    for (argstrs, _), (args, out), got in zip(items, exps, results):
        if "harness_error" in got:
            raise C.MachineryError("replay failed in the harness: %s" % got["harness_error"])
        nrep += 1
        kinds = "+".join(a["kind"] for a in args) or "empty"
        desc = {"args": argstrs}
        exp_err = str(out["error"])
        if exp_err != "none":
            if got["error"] != ("EmptyCartesianProduct" if exp_err == "empty-selection" else "ValueError"):
                v.violation("not-rejected %s order=%s" % (exp_err, kinds), "arguments %s: expected rejection (%s), got %s"
                            % (argstrs, exp_err, got["error"] or "accepted with tests_str %r, nets %r" % (got.get("tests_str"), got.get("param_dict", {}).get("nets"))),
                            dict(desc, got=got))
            continue
        if got["error"]:
            v.violation("rejected-valid %s" % kinds, "arguments %s raised %s: %s" % (argstrs, got["error"], got.get("msg")), dict(desc, got=got))
            continue
        problems = []
        e_tests = "".join("%s %s\n" % (str(l["op"]), estr([[list(map(str, grp)) for grp in alt] for alt in l["expr"]])) for l in out["tests"])
        if got["tests_str"] != e_tests:
            problems.append("tests_str %r, expected %r" % (got["tests_str"], e_tests))
        e_vm = {str(vm): "".join("%s %s\n" % (str(x["op"]), str(x["val"])) for x in lines) for vm, lines in out["vmstrs"].items()}
        if got["vm_strs"] != e_vm:
            problems.append("vm_strs %r, expected %r" % (got["vm_strs"], e_vm))
        if got["vms"] != " ".join(str(x) for x in out["selvms"]):
            problems.append("selected vms %r, expected %r" % (got["vms"], " ".join(str(x) for x in out["selvms"])))
        e_pd = {str(kv[0]): str(kv[1]) for kv in out["pd"]}
        if out["nets"]:
            e_pd["nets"] = " ".join(str(x) for x in out["nets"])
        if got["param_dict"] != e_pd:
            problems.append("overrides %r, expected %r" % (got["param_dict"], e_pd))
        e_sel = sorted(".".join(str(x) for x in n) for n in out["selected"])
        if "selected" in got:
            if got["selected"] != e_sel:
                problems.append("selected tests differ: only real %s, only spec %s" % (sorted(set(got["selected"]) - set(e_sel))[:4], sorted(set(e_sel) - set(got["selected"]))[:4]))
            if got.get("missing_overrides"):
                problems.append("override missing in parsed tests: %s" % got["missing_overrides"][:2])
        elif e_sel:
            problems.append("no tests parsed (%s) where the spec selects %d" % (got.get("selected_error"), len(e_sel)))
        if problems:
            v.violation("config %s" % kinds, "arguments %s: %s" % (argstrs, "; ".join(problems[:3])), dict(desc, got=got, problems=problems))
        # the spec's matcher against the Cartesian parser itself (validates the oracle)
        if nrep % 25 == 0:
            cs = cartesian_select([(str(l["op"]), [[list(map(str, grp)) for grp in alt] for alt in l["expr"]]) for l in out["tests"]])
            three_way += 1
            if cs != e_sel:
                raise C.MachineryError("the spec's restriction matcher disagrees with the Cartesian parser on %s" % e_tests)
        if len(samples) < 4 and len(args) == maxlen and e_sel:
            samples.append({"args": argstrs, "expected_tests_str": e_tests, "expected_selected": len(e_sel)})
    rc = v.finish()
    C.write_evidence(PID, tier, seed, "model_checking", {
        "states": r.distinct, "transitions": r.generated, "traces_validated_against_impl": nrep, "samples": samples,
        "argument_lists_in_model": len([1 for st in g.states.values() if st["out"].get("done") is True]), "exhaustive": quick or nrep >= 6000,
        "universe": len(uni), "matcher_cross_checks": three_way, "pool": [arg_string(a) for a in pool], "max_len": maxlen,
        "rule": "every argument list up to the bound over the pool; final state of each TLC behaviour = expected outcome; replayed into params_from_cmd "
                "and TestGraph.parse_flat_nodes; restriction strings, vm strings, vms, nets, overrides, selected tests and override propagation compared",
    }, ["the universe of test variants and the defaults come from the shipped suite (sets.cfg, overwrite files) read by virttest.cartesian_config alone",
        "the spec's restriction matcher is cross-checked against the Cartesian parser on a sample of the restriction lines in every run"],
        time.time() - t0, len(v.violations))
    return rc
