"""C14 - pool transfers are exact, never destroy data, and exclude each other.

specs/pool/PoolLock.tla: processes x {upload, download, delete, download_link, upload_link} on one pool file, one
action per wrapped system call (non-blocking lock attempt / sleep / give up, compare, copy|unlink|symlink, unlock),
Crash (SIGKILL) at every point, exception inside the critical section.  TLC checks mutual exclusion, lock release,
timeout-raises-without-copy, exact copies, link safety exhaustively for 2-3 processes.

Binding: TLC behaviours (-simulate and a transition cover of a small instance) are replayed with REAL processes on
a scratch directory using the real TransferOps/image_lock and real fcntl locks.  pool.fcntl.lockf, pool.time.sleep,
TransferOps.compare_local/compare_link, pool.shutil.copy, pool.os.unlink, pool.os.symlink are wrapped in the children:
each wrapped call waits at a gate, so the coordinator forces exactly TLC's interleaving; crashes are SIGKILL at the
gate.  After every step the lock holder, the file contents (by content) and link status are compared with the spec,
and the property itself is evaluated on the observations (no two processes inside the critical section, ...).
"""
import json
import os
import random
import shutil
import signal
import tempfile
import time

from .. import common as C
from ..tlaval import tla

PID = "C14"
OPS = ["upload", "download", "delete", "download_link", "upload_link"]


def content(path):
    if os.path.islink(path):
        return "link"
    if not os.path.exists(path):
        return 0
    with open(path) as f:
        return int(f.read().split(":")[0])


def write_content(path, v):
    if os.path.lexists(path):
        os.unlink(path)
    if v:
        os.makedirs(os.path.dirname(path), exist_ok=True)
        with open(path, "w") as f:
            f.write("%d:" % v + "x" * (17 * v))


class Child:
    """a real process performing one TransferOps call, stopped at every wrapped system call"""

    def __init__(self, name, op, root, timeout):
        self.name, self.op = name, op
        self.cache = os.path.join(root, "cache_" + name, "vm1", "image.qcow2")
        self.pool = os.path.join(root, "pool", "vm1", "image.qcow2")
        c2p_r, c2p_w = os.pipe()
        p2c_r, p2c_w = os.pipe()
        self.pid = os.fork()
        if self.pid == 0:
            os.close(c2p_r)
            os.close(p2c_w)
            try:
                self._child(c2p_w, p2c_r, timeout)
            finally:
                os._exit(0)
        os.close(c2p_w)
        os.close(p2c_r)
        self.rd, self.wr = os.fdopen(c2p_r, "r"), os.fdopen(p2c_w, "w")
        self.alive = True
        self.at = None

    # ---------------- child side
    def _child(self, wfd, rfd, timeout):
        from virttest.utils_params import Params
        from avocado_i2n.states import pool
        out, inp = os.fdopen(wfd, "w"), os.fdopen(rfd, "r")

        def gate(step):
            out.write(json.dumps({"gate": step}) + "\n")
            out.flush()
            return inp.readline().strip()

        def report(**kw):
            out.write(json.dumps(kw) + "\n")
            out.flush()

        real_lockf, real_copy, real_unlink, real_symlink = pool.fcntl.lockf, pool.shutil.copy, pool.os.unlink, pool.os.symlink
        real_cl, real_cln = pool.TransferOps.compare_local, pool.TransferOps.compare_link
        poolpath = self.pool

        class FcntlW:
            LOCK_EX, LOCK_NB, LOCK_UN = pool.fcntl.LOCK_EX, pool.fcntl.LOCK_NB, pool.fcntl.LOCK_UN

            @staticmethod
            def lockf(fd, flags):
                if flags & pool.fcntl.LOCK_UN:
                    gate("unlock")
                    r = real_lockf(fd, flags)
                    report(done="unlock")
                    return r
                gate("trylock")
                try:
                    r = real_lockf(fd, flags)
                except IOError:
                    report(done="trylock", result="busy")
                    raise
                report(done="trylock", result="ok")
                return r

        class TimeW:
            @staticmethod
            def sleep(s):
                gate("sleep")
                report(done="sleep")

        depth = [0]

        def compare(kind):
            def f(cache_path, pool_path, params):
                if depth[0] > 0:        # compare_link delegating to compare_local: one step
                    return real_cl(cache_path, pool_path, params)
                gate("compare")
                depth[0] += 1
                try:
                    r = (real_cl if kind == "local" else real_cln)(cache_path, pool_path, params)
                finally:
                    depth[0] -= 1
                report(done="compare", result=bool(r))
                return r
            return staticmethod(f)

        class ShutilW:
            @staticmethod
            def copy(src, dst):
                cmd = gate("copy")
                if cmd == "fail":
                    report(done="copy", result="failed")
                    raise OSError(5, "injected i/o error")
                try:
                    r = real_copy(src, dst)
                except Exception as ex:
                    report(done="copy", result="error:" + type(ex).__name__)
                    raise
                report(done="copy", result="ok")
                return r

        class OsW:
            def __getattr__(self, k):
                return getattr(os, k)

            @staticmethod
            def unlink(path):
                if path != poolpath:
                    return real_unlink(path)
                gate("unlink")
                try:
                    r = real_unlink(path)
                except Exception as ex:
                    report(done="unlink", result="error:" + type(ex).__name__)
                    raise
                report(done="unlink", result="ok")
                return r

            @staticmethod
            def symlink(src, dst):
                gate("symlink")
                r = real_symlink(src, dst)
                report(done="symlink", result="ok")
                return r

        pool.fcntl = FcntlW
        pool.time = TimeW
        pool.shutil = ShutilW
        pool.os = OsW()
        pool.TransferOps.compare_local = compare("local")
        pool.TransferOps.compare_link = compare("link")
        params = Params({"update_pool_timeout": str(timeout)})
        gate("begin")
        try:
            if self.op == "upload":
                pool.TransferOps.upload_local(self.cache, self.pool, params)
            elif self.op == "download":
                pool.TransferOps.download_local(self.cache, self.pool, params)
            elif self.op == "delete":
                pool.TransferOps.delete_local(self.pool, params)
            elif self.op == "download_link":
                pool.TransferOps.download_link(self.cache, self.pool, params)
            else:
                pool.TransferOps.upload_link(self.cache, self.pool, params)
            report(finished="ok")
        except BaseException as ex:
            report(finished="raised", exc=type(ex).__name__, msg=str(ex)[:120])

    # ---------------- coordinator side
    def read(self):
        line = self.rd.readline()
        if not line:
            return {"eof": True}
        return json.loads(line)

    def advance_to_gate(self):
        """read reports until the child blocks at its next gate or finishes; returns list of reports"""
        reps = []
        while True:
            m = self.read()
            reps.append(m)
            if "gate" in m:
                self.at = m["gate"]
                return reps
            if "finished" in m or "eof" in m:
                self.at = "finished"
                return reps

    def go(self, cmd="go"):
        self.wr.write(cmd + "\n")
        self.wr.flush()
        return self.advance_to_gate()

    def kill(self):
        if self.alive:
            os.kill(self.pid, signal.SIGKILL)
            os.waitpid(self.pid, 0)
            self.alive = False
            self.at = "killed"

    def close(self):
        if self.alive:
            try:
                os.kill(self.pid, signal.SIGKILL)
            except OSError:
                pass
            try:
                os.waitpid(self.pid, 0)
            except OSError:
                pass
            self.alive = False
        for f in (self.rd, self.wr):
            try:
                f.close()
            except Exception:
                pass


def replay(beh, opof, timeout, root, v, tag):
    """beh: list of (action name, state) from TLC (first = Init). Returns steps compared."""
    st0 = beh[0][1]
    procs = sorted(opof)
    shutil.rmtree(root, ignore_errors=True)
    os.makedirs(root)
    poolpath = os.path.join(root, "pool", "vm1", "image.qcow2")
    os.makedirs(os.path.dirname(poolpath))
    write_content(poolpath, st0["pool"])
    children = {}
    history = []
    try:
        for p in procs:
            ch = Child(p, opof[p], root, timeout)
            children[p] = ch
            os.makedirs(os.path.dirname(ch.cache), exist_ok=True)
            if st0["link"][p]:
                os.symlink(poolpath, ch.cache)
            else:
                write_content(ch.cache, st0["cache"][p])
            ch.advance_to_gate()          # blocked at "begin": the process arrives (opens the lock file) only with its first action
        incs = set()
        steps = 0
        prev = st0

        def fail(kind, msg):
            v.violation("%s %s" % (kind, tag), msg, {"ops": opof, "timeout": timeout,
                                                      "initial": {"pool": st0["pool"], "cache": dict(st0["cache"]), "link": {k: bool(x) for k, x in st0["link"].items()}},
                                                      "history": history, "problem": msg})

        for action, st in beh[1:]:
            # which process moved
            moved = [p for p in procs if st["pc"][p] != prev["pc"][p] or st["tries"][p] != prev["tries"][p]]
            p = moved[0] if moved else None
            history.append([action, p])
            ch = children.get(p)
            reps = []
            if ch is not None and ch.at == "begin" and action != "Crash":
                ch.go()                   # arrival: runs to the lock attempt, or returns at once (upload_link refusing a link)
            if action == "Crash":
                ch.kill()
                incs.discard(p)
            elif action in ("RefuseLink", "GiveUp"):
                if ch.at != "finished":
                    fail("no-error", "%s: spec says the call raises here, the process is at gate %s" % (action, ch.at))
                    return steps
            elif action in ("TryLockOK", "TryLockBusy"):
                if ch.at != "trylock":
                    fail("sequence", "%s expected at the lock attempt, process %s is at %s" % (action, p, ch.at))
                    return steps
                reps = ch.go()
                res = [r for r in reps if r.get("done") == "trylock"][0]["result"]
                if res == "ok":
                    others = incs - {p}
                    if others:
                        fail("overlap", "process %s acquired the lock while %s is inside the critical section" % (p, sorted(others)))
                        return steps
                    incs.add(p)
                if (res == "ok") != (action == "TryLockOK"):
                    fail("lock-outcome", "lock attempt of %s: %s, spec %s" % (p, res, action))
                    return steps
            elif action == "Wake":
                if ch.at != "sleep":
                    fail("sequence", "Wake: process %s is at %s" % (p, ch.at))
                    return steps
                reps = ch.go()
            elif action == "Compare":
                if ch.at != "compare":
                    fail("sequence", "Compare: process %s is at %s" % (p, ch.at))
                    return steps
                reps = ch.go()
                res = [r for r in reps if r.get("done") == "compare"][0]["result"]
                if res != bool(st["equal"][p]):
                    fail("compare", "comparison of %s gave %s, spec %s" % (p, res, bool(st["equal"][p])))
                    return steps
            elif action in ("Act", "ActFails"):
                if ch.at in ("copy", "unlink", "symlink"):
                    reps = ch.go("fail" if action == "ActFails" else "go")
                elif ch.at not in ("unlock",):
                    fail("sequence", "%s: process %s is at %s" % (action, p, ch.at))
                    return steps
            elif action == "Unlock":
                if ch.at != "unlock":
                    fail("sequence", "Unlock: process %s is at %s" % (p, ch.at))
                    return steps
                incs.discard(p)
                reps = ch.go()
            steps += 1
            # observations vs spec
            obs_pool = content(poolpath)
            problems = []
            if obs_pool != st["pool"]:
                problems.append("pool file holds %s, spec %s" % (obs_pool, st["pool"]))
            for q in procs:
                oc = content(children[q].cache)
                exp = "link" if st["link"][q] else st["cache"][q]
                if oc != exp:
                    problems.append("cache of %s holds %s, spec %s" % (q, oc, exp))
            holder = None if str(st["holder"]) == "none" else str(st["holder"])
            if (holder in incs) != (holder is not None) or len(incs) > 1 or (holder is None and incs):
                problems.append("lock holder by observation %s, spec %s" % (sorted(incs), holder))
            for q in procs:
                if str(st["pc"][q]) in ("done", "raised") and children[q].at != "finished" and q == p:
                    problems.append("process %s should have returned (%s) but is at %s" % (q, st["pc"][q], children[q].at))
            if problems:
                fail("state-after-" + action, "; ".join(problems[:3]))
                return steps
            prev = st
        return steps
    finally:
        for ch in children.values():
            ch.close()


def write_model(work, name, opof, versions, timeout, maycrash, mayfail):
    procs = sorted(opof)
    with open(os.path.join(work, name + ".tla"), "w") as f:
        f.write("---- MODULE %s ----\nEXTENDS PoolLock\nMCOpOf == %s\n====\n" % (name, tla({p: opof[p] for p in procs})))
    with open(os.path.join(work, name + ".cfg"), "w") as f:
        f.write("SPECIFICATION Spec\nCONSTANTS\n Procs = %s\n OpOf <- MCOpOf\n Versions = %s\n Timeout = %d\n MayCrash = %s\n MayFail = %s\n"
                % (tla(set(procs)), tla(set(versions)), timeout, tla(set(maycrash)), tla(set(mayfail))))
        f.write("INVARIANT MutualExclusion\nINVARIANT LockedInCS\nINVARIANT Released\nINVARIANT TimeoutRaises\nINVARIANT NoLinkUploaded\n"
                "PROPERTY CopyExact\nPROPERTY LinkSafe\nCHECK_DEADLOCK FALSE\n")


def run(tier, seed):
    t0 = time.time()
    C.repo_python_setup()
    import unittest_importer  # noqa: F401
    work = C.build_dir(PID, wipe=True)
    C.stage_specs(work, os.path.join(C.SPECS, "pool"))
    v = C.Verdict(PID)
    rng = random.Random(seed)
    quick = tier == "quick"
    states = transitions = replayed = steps = 0
    instances, samples = [], []
    root = os.path.join(work, "scratch")
    # exhaustive instances: every pair (quick: a selection) of operations, 2 processes; plus triples
    pairs = [(a, b) for a in OPS for b in OPS if a <= b]
    if quick:
        pairs = [("upload", "download"), ("upload", "upload"), ("delete", "download"), ("download_link", "upload"), ("upload_link", "delete")]
    triples = [("upload", "download", "delete")] if quick else [("upload", "download", "delete"), ("upload", "upload", "download_link"),
                                                                  ("download", "download_link", "delete"), ("upload_link", "upload", "download")]
    plans = [({"p1": a, "p2": b}, 2) for a, b in pairs] + [({"p1": a, "p2": b, "p3": c}, 2) for a, b, c in triples]
    nsim = 12 if quick else 60
    for k, (opof, timeout) in enumerate(plans):
        name = "MC_lock_%d" % k
        procs = sorted(opof)
        write_model(work, name, opof, [1, 2], timeout, procs, procs)
        r = C.run_tlc(work, name, name + ".cfg", timeout=3000)
        if not r.ok:
            raise C.MachineryError("TLC reports a problem in the PoolLock model itself (%s): %s" % (opof, r.errors[:5]))
        states += r.distinct
        transitions += r.generated
        rs, behs = C.simulate(work, name, name + ".cfg", nsim, 40, seed + k, timeout=600)
        n_here = 0
        for beh in behs:
            if len(beh) < 2:
                continue
            steps += replay(beh, opof, timeout, root, v, "+".join(opof[p] for p in procs))
            replayed += 1
            n_here += 1
            if len(samples) < 3 and any(a == "Crash" for a, _ in beh) and len(beh) > 8:
                samples.append({"ops": opof, "initial": {"pool": beh[0][1]["pool"], "cache": C.tlaval.plain(beh[0][1]["cache"])},
                                "actions": [a for a, _ in beh[1:]]})
        instances.append({"ops": opof, "timeout": timeout, "distinct_states": r.distinct, "behaviours_replayed": n_here})
    # directed behaviours: TLC refutes the negation of each scenario, the counterexample is replayed with real processes
    scen_ops = {"p1": "upload", "p2": "download", "p3": "upload"}
    nscen = 0
    for scen in ("NoLateArrival", "NoCrashRelease", "NoFailRelease", "NoTimeoutScenario"):
        name = "MC_scen_" + scen
        write_model(work, name, scen_ops, [1, 2], 2, sorted(scen_ops), sorted(scen_ops))
        with open(os.path.join(work, name + ".cfg")) as f:
            cfg = f.read()
        cfg = "\n".join(l for l in cfg.splitlines() if not l.startswith(("INVARIANT", "PROPERTY"))) + "\nINVARIANT %s\n" % scen
        with open(os.path.join(work, name + ".cfg"), "w") as f:
            f.write(cfg)
        rs = C.run_tlc(work, name, name + ".cfg", timeout=1200)
        if rs.violated != scen:
            raise C.MachineryError("scenario %s is not reachable in the model: %s" % (scen, rs.errors[:3]))
        beh = rs.trace()
        states += rs.distinct
        transitions += rs.generated
        steps += replay(beh, scen_ops, 2, root, v, "scenario-" + scen[2:])
        replayed += 1
        nscen += 1
    instances.append({"ops": scen_ops, "directed_scenarios": nscen, "scenarios": ["late arrival after hand-over", "crash inside the critical section",
                                                                                   "failing copy", "timeout while the holder is inside"]})
    # more processes by simulation only
    big = {"p%d" % i: rng.choice(OPS) for i in range(1, (5 if quick else 9))}
    write_model(work, "MC_lock_big", big, [1, 2], 3, sorted(big), sorted(big)[:2])
    rs, behs = C.simulate(work, "MC_lock_big", "MC_lock_big.cfg", 6 if quick else 40, 80, seed + 99, timeout=600)
    nb = 0
    for beh in behs:
        if len(beh) < 2:
            continue
        steps += replay(beh, big, 3, root, v, "big")
        replayed += 1
        nb += 1
    instances.append({"ops": big, "timeout": 3, "simulation_only": True, "behaviours_replayed": nb})
    shutil.rmtree(root, ignore_errors=True)
    rc = v.finish()
    C.write_evidence(PID, tier, seed, "model_checking", {
        "states": states, "transitions": transitions, "traces_validated_against_impl": replayed,
        "samples": samples or [{"note": "no crash behaviour sampled"}], "exhaustive": True, "real_process_steps_compared": steps,
        "instances": instances,
        "rule": "per instance: TLC exhaustive (crash of any process at any point, failing copy, every initial content/link placement), then "
                "-simulate behaviours replayed with real processes, real fcntl locks and SIGKILL on a scratch directory; after every step "
                "lock holder, pool/cache contents and link status compared with the spec; overlap of critical sections checked on observations",
    }, ["processes are stopped at wrapped system calls (pool.fcntl/time/shutil/os, TransferOps.compare_*), so the interleaving is TLC's",
        "one pool file, each process its own cache file; remote (ssh) transfers have no lock in the code and are out of scope"],
        time.time() - t0, len(v.violations))
    return rc
