"""C13 - pool access respects the enabled scopes and prefers the closest source.

specs/pool/PoolScope.tla models SourcedStateBackend.show/get/set/unset and RootSourcedStateBackend's root
operations as "which sources are contacted, in which order, what moves"; TLC checks the scope/proximity
invariants over every pool_scope subset x location list x placement x cache validity and dumps the graph.
Every transition is executed on the real classes with a stub transport and stub local backend substituted
through the class attributes transport/_show/_get/_set/_unset/_check_root/...; the contacted sources (in
order), the local backend calls, the result and the resulting placement are compared.
"""
import os
import random
import time

from .. import common as C
from ..tlaval import tla

PID = "C13"
PATHS = {"swarm": "/swarm", "shared": "/shared", "other": "/other"}


class World:
    cache = False
    mirror = {}
    valid = False
    rootlocal = False
    rootpool = False
    contacts = []
    locals = []
    srcmap = {}  # location string -> index


def make_classes():
    from avocado_i2n.states import pool

    class StubOps:
        @staticmethod
        def compare(cache_path, pool_path, params):
            World.contacts.append(("compare", 0))
            return World.valid

    class StubTransport:
        ops = StubOps

        @classmethod
        def show(cls, params, object=None):
            i = World.srcmap[params["show_location"]]
            World.contacts.append(("show", i))
            return ["s"] if World.mirror[i] else []

        @classmethod
        def compare_chain(cls, state, cache_dir, pool_dir, params):
            World.contacts.append(("compare", World.srcmap[pool_dir]))
            return World.valid

        @classmethod
        def get(cls, params, object=None):
            World.contacts.append(("get", World.srcmap[params["get_location"]]))
            World.cache = True

        @classmethod
        def set(cls, params, object=None):
            i = World.srcmap[params["set_location"]]
            World.contacts.append(("set", i))
            World.mirror[i] = True

        @classmethod
        def unset(cls, params, object=None):
            i = World.srcmap[params["unset_location"]]
            World.contacts.append(("unset", i))
            World.mirror[i] = False

        @classmethod
        def check_root(cls, params, object=None):
            World.contacts.append(("check_root", 0))
            return World.rootpool

        @classmethod
        def get_root(cls, params, object=None):
            World.contacts.append(("get_root", 0))
            World.rootlocal = World.rootlocal or World.rootpool

        @classmethod
        def set_root(cls, params, object=None):
            World.contacts.append(("set_root", 0))
            World.rootpool = True

        @classmethod
        def unset_root(cls, params, object=None):
            World.contacts.append(("unset_root", 0))
            World.rootpool = False

    class TB(pool.SourcedStateBackend):
        transport = StubTransport

        @classmethod
        def _show(cls, params, object=None):
            World.locals.append("_show")
            return ["s"] if World.cache else []

        @classmethod
        def _get(cls, params, object=None):
            World.locals.append("_get")

        @classmethod
        def _set(cls, params, object=None):
            World.locals.append("_set")
            World.cache = True

        @classmethod
        def _unset(cls, params, object=None):
            World.locals.append("_unset")
            World.cache = False

    class RB(pool.RootSourcedStateBackend):
        transport = StubTransport

        @classmethod
        def _check_root(cls, params, object=None):
            World.locals.append("_check_root")
            return World.rootlocal

        @classmethod
        def _get_root(cls, params, object=None):
            World.locals.append("_get_root")

        @classmethod
        def _set_root(cls, params, object=None):
            World.locals.append("_set_root")
            World.rootlocal = True

        @classmethod
        def _unset_root(cls, params, object=None):
            World.locals.append("_unset_root")
            World.rootlocal = False

    return TB, RB


def run_case(pre, post, TB, RB, rng, v):
    from virttest.utils_params import Params
    srcs = [dict((str(k), str(x)) for k, x in s.items()) for s in pre["srcs"]]
    scopes = sorted(str(x) for x in pre["scopes"])
    op = str(post["op"])
    p = Params({"nets_gateway": "gw0", "nets_host": "h0", "swarm_pool": "/swarm", "shared_pool": "/shared",
                "pool_scope": " ".join(rng.sample(scopes, len(scopes))), "vms": "vm1", "images": "image1", "image_name": "image1",
                "vms_base_dir": "/images", "object_type": "nets/vms/images", "object_id": "vm1-x",
                "get_state": "s", "set_state": "s", "unset_state": "s", "check_state": "s"})
    locs = []
    World.srcmap = {}
    for i, s in enumerate(srcs):
        same = s["gw"] == "same" and s["host"] == "same"
        net = "" if same and rng.random() < 0.5 else "net%d" % (i + 1)
        if net:
            p["nets_gateway_" + net] = "gw0" if s["gw"] == "same" else "gw%d" % (i + 1)
            p["nets_host_" + net] = "h0" if s["host"] == "same" else "h%d" % (i + 1)
        loc = net + ":" + PATHS[s["path"]]
        if loc in World.srcmap:  # two kinds with the same concrete location string: make the named form unique
            net = "net%d" % (i + 1)
            p["nets_gateway_" + net] = "gw0" if s["gw"] == "same" else "gw%d" % (i + 1)
            p["nets_host_" + net] = "h0" if s["host"] == "same" else "h%d" % (i + 1)
            loc = net + ":" + PATHS[s["path"]]
        World.srcmap[loc] = i + 1
        locs.append(loc)
    for do in ("show", "get", "set", "unset"):
        p[do + "_location"] = " ".join(locs)
    mirror = pre["mirror"]
    World.mirror = {i + 1: bool(mirror[i]) for i in range(len(srcs))} if isinstance(mirror, tuple) else {int(k): bool(x) for k, x in dict(mirror).items()}
    World.cache, World.valid = bool(pre["cache"]), bool(pre["valid"])
    World.rootlocal, World.rootpool = bool(pre["rootlocal"]), bool(pre["rootpool"])
    World.contacts, World.locals = [], []
    try:
        if op == "show":
            res = "present" if "s" in TB.show(p) else "absent"
        elif op in ("get", "set", "unset"):
            getattr(TB, op)(p)
            res = "ok"
        elif op == "check_root":
            res = "present" if RB.check_root(p) else "absent"
        else:
            getattr(RB, op)(p)
            res = "ok"
    except RuntimeError:
        res = "RuntimeError"
    except Exception as ex:
        res = "raised %s: %s" % (type(ex).__name__, ex)
    e_contacts = [(str(c["what"]), int(c["src"])) for c in post["contacts"]]
    e_locals = [str(x) for x in post["locals"]]
    pm = post["mirror"]
    e_mirror = {i + 1: bool(pm[i]) for i in range(len(srcs))} if isinstance(pm, tuple) else {int(k): bool(x) for k, x in dict(pm).items()}
    problems, internal = [], []
    permitted = {i + 1 for i, s in enumerate(srcs) if scope_of(s) != "own" and scope_of(s) in scopes}
    for what, i in World.contacts:
        if (i == 0 and "shared" not in scopes) or (i != 0 and i not in permitted):
            problems.append("%s contacted source %s whose scope %s is not enabled (pool_scope=%s)"
                            % (what, locs[i - 1] if i else "shared pool (root)", scope_of(srcs[i - 1]) if i else "shared", scopes))
    if res != str(post["result"]):
        problems.append("result %s, spec %s" % (res, post["result"]))
    if World.contacts != e_contacts:
        problems.append("contacted %s, spec %s" % (World.contacts, e_contacts))
    if (World.cache, World.mirror, World.rootlocal, World.rootpool) != (bool(post["cache"]), e_mirror, bool(post["rootlocal"]), bool(post["rootpool"])):
        problems.append("placement after the operation differs from the spec")
    if World.locals != e_locals:
        internal.append("local backend calls %s, spec %s" % (World.locals, e_locals))
    desc = {"op": op, "pool_scope": scopes, "locations": locs, "kinds": srcs, "cache": bool(pre["cache"]), "valid": bool(pre["valid"]),
            "mirror": {k: x for k, x in World.mirror.items()}, "rootlocal": bool(pre["rootlocal"]), "rootpool": bool(pre["rootpool"])}
    if problems:
        kind = "contact-outside-scope" if "not enabled" in problems[0] else "behaviour"
        v.violation("%s op=%s scopes=%s" % (kind, op, "+".join(scopes) or "none"), "; ".join(problems[:3]), dict(desc, problems=problems))
    return internal


def scope_of(s):
    if s["gw"] != "same":
        return "cluster"
    if s["host"] != "same":
        return "swarm"
    return {"shared": "shared", "swarm": "own"}.get(s["path"], "shared")


def run(tier, seed):
    t0 = time.time()
    C.repo_python_setup()
    import unittest_importer  # noqa: F401
    work = C.build_dir(PID, wipe=True)
    C.stage_specs(work, os.path.join(C.SPECS, "pool"))
    v = C.Verdict(PID)
    rng = random.Random(seed)
    quick = tier == "quick"
    kinds = [dict(gw=g, host=h, path=pth) for g in ("same", "other") for h in ("same", "other") for pth in ("swarm", "shared", "other")]
    if quick:
        kinds = [k for k in kinds if not (k["gw"] == "other" and k["path"] != "swarm") and not (k["host"] == "other" and k["path"] == "other")]
    maxsrc = 2 if quick else 3
    if not quick:
        # length 3 over all 12 kinds is too large to dump: 8 representative kinds
        kinds = [k for k in kinds if not (k["gw"] == "other" and k["path"] == "other") and not (k["host"] == "other" and k["path"] == "shared")]
    ops = ["show", "get", "set", "unset", "check_root", "get_root", "set_root", "unset_root"]
    with open(os.path.join(work, "MC_PoolScope.tla"), "w") as f:
        f.write("---- MODULE MC_PoolScope ----\nEXTENDS PoolScope\nMCKinds == %s\n====\n" % tla(set(C.tlaval.FrozenDict(k) for k in kinds)))
    with open(os.path.join(work, "MC_PoolScope.cfg"), "w") as f:
        f.write("SPECIFICATION Spec\nCONSTANTS\n Kinds <- MCKinds\n MaxSources = %d\n Ops = %s\n" % (maxsrc, tla(set(ops))))
        f.write("INVARIANT ContactsPermitted\nINVARIANT ClosestOnly\nINVARIANT AllMirrors\nINVARIANT ShowSound\n"
                "INVARIANT DownloadOnlyIfDiffers\nINVARIANT RefuseWithoutLocal\nCHECK_DEADLOCK FALSE\n")
    dump = os.path.join(work, "graph")
    r = C.run_tlc(work, "MC_PoolScope", "MC_PoolScope.cfg", dump=dump, timeout=7000)
    if not r.ok:
        raise C.MachineryError("TLC reports a problem in the PoolScope model itself: %s" % r.errors[:5])
    g = C.StateGraph(dump + ".dot")
    os.unlink(dump + ".dot")
    TB, RB = make_classes()
    n, internal, samples = 0, [], []
    for s, d, a in g.edges:
        pre, post = g.states[s], g.states[d]
        internal += run_case(pre, post, TB, RB, rng, v)
        n += 1
        if len(samples) < 3 and len(pre["srcs"]) == maxsrc and str(post["op"]) == "get" and len(post["contacts"]) == 3:
            samples.append({"op": "get", "pool_scope": sorted(str(x) for x in pre["scopes"]), "sources": C.tlaval.plain(pre["srcs"]),
                            "expected_contacts": C.tlaval.plain(post["contacts"])})
    rc = v.finish()
    for dv in sorted(set(internal))[:3]:
        C.log("CONFORMANCE-DIVERGED (contacts, results and placement agree with the spec): %s" % dv)
    C.write_evidence(PID, tier, seed, "model_checking", {
        "states": r.distinct, "transitions": r.generated, "traces_validated_against_impl": n,
        "samples": samples or [{"note": "no 3-contact get in this instance"}], "exhaustive": True,
        "conformance": "accepted" if not internal else "local call order diverged in %d transitions" % len(internal),
        "instances": [{"kinds": len(kinds), "max_sources": maxsrc, "ops": ops, "distinct_states": r.distinct, "edges": len(g.edges)}],
        "rule": "every transition of the TLC graph = (location list without repetition over source kinds [gateway, host, path], pool_scope "
                "subset, placement of the state, cache validity, operation); executed on SourcedStateBackend/RootSourcedStateBackend "
                "subclasses with stub transport and stub local backend; contacted sources in order, result and placement compared",
    }, ["the remote transport (ssh/scp) is stubbed: no network in this sandbox", "one state name, one image per vm",
        "show combines permitted mirrors as coded (an empty running result is re-initialised from the next mirror); the property only "
        "bounds what may be reported (cache or permitted sources)"],
        time.time() - t0, len(v.violations))
    return rc
