"""C17 - a vm state exists exactly when all of the vm's images have it.

TLC enumerates every configuration of specs/vmstate/VMStates.tla (1..MaxImages images, every
assignment of none/off/on snapshots per state name, every memory-file set), checks that the listing
algorithm computes the definition, and dumps the state graph.  Every terminal state (configuration +
expected vm-level listing) is replayed on the real backends:
  vt  mode: QCOW2VTBackend.show with QemuImg.snapshot_list answering a generated qemu-img listing,
            plus QCOW2Backend.show (off) / on-listing per image;
  ram mode: RamfileBackend._show over real temporary directories with QCOW2ExtBackend as image backend.
"""
import os
import random
import shutil
import tempfile
import time
from unittest import mock

from .. import common as C
from ..tlaval import tla

PID = "C17"

# concrete tags for the abstract state names (tags over [\w.-]; prefixes of each other, digits, dots)
TAGS = {"s1": ["launch", "a", "boot"], "s2": ["launch2", "a.b", "launch_2-0"], "s3": ["launch3.0", "a-b", "10"]}
ON_SIZES = ["1 GiB", "512 MiB", "1.5 GiB", "1.66 GiB", "0.977 GiB", "999 KiB", "10 B", "1e+03 MiB", "372 MiB", "20 GiB"]


def listing(kinds, tags, rng):
    """qemu-img snapshot listing for one image: kinds = {name: none/off/on}"""
    lines = ["Snapshot list:", "ID        TAG               VM SIZE                DATE     VM CLOCK     ICOUNT"]
    names = [n for n in kinds if kinds[n] != "none"]
    rng.shuffle(names)
    for i, n in enumerate(names):
        size = "0 B" if kinds[n] == "off" else rng.choice(ON_SIZES)
        pad1, pad2 = " " * rng.choice([1, 2, 9]), " " * rng.choice([1, 3, 14])
        icount = rng.choice(["", "          0", "   --"])
        lines.append(f"{i + 1}{pad1}{tags[n]}{pad2}{size} 2024-0{rng.randint(1, 9)}-1{rng.randint(0, 9)} 10:20:3{rng.randint(0, 9)} 00:0{rng.randint(0, 9)}:01.{rng.randint(100, 999)}{icount}")
    return "\n".join(lines) + "\n"


def write_cfg(work, name, names, maximg, mode, algo="narrow", invariants=True):
    with open(os.path.join(work, name), "w") as f:
        f.write("SPECIFICATION Spec\nCONSTANTS\n  Names = %s\n  MaxImages = %d\n  Mode = %s\n  Algo = %s\n"
                % (tla(set(names)), maximg, tla(mode), tla(algo)))
        if invariants:
            f.write("INVARIANT TypeOK\nINVARIANT ResultIsDefinition\nINVARIANT OnOffDisjoint\nPROPERTY Narrowing\n")
        f.write("CHECK_DEADLOCK FALSE\n")


def replay_vt(state, rng, v):
    from avocado_i2n.states import qcow2
    from virttest.utils_params import Params
    n = state["n"]
    images = ["image%d" % i for i in range(1, n + 1)]
    tags = {s: rng.choice(TAGS[s]) for s in TAGS}
    kinds = {images[i]: {s: state["img"][i][s] for s in state["img"][i]} for i in range(n)}
    texts = {im: listing(kinds[im], tags, rng) for im in images}

    class FakeImg:
        def __init__(self, params, root, tag):
            self.tag = tag

        def snapshot_list(self, force_share=False):
            return texts[self.tag]

    params = Params({"vms": "vm1", "images": " ".join(images), "images_base_dir": "/nonexistent"})
    expected = {tags[s] for s in state["acc"]}
    n_checks = 0
    with mock.patch.object(qcow2, "QemuImg", FakeImg):
        try:
            got = qcow2.QCOW2VTBackend.show(params.copy())
            ok = set(got) == expected and len(list(got)) == len(set(got))
            res = sorted(got)
        except Exception as ex:  # the call itself failing is a failure of the property
            ok, res = False, "raised %s: %s" % (type(ex).__name__, ex)
        n_checks += 1
        if not ok:
            sig = "vt-show images=%d" % n
            v.violation(sig, "QCOW2VTBackend.show returned %s, expected %s for per-image snapshots %s"
                        % (res, sorted(expected), kinds), {"mode": "vt", "images": kinds, "tags": tags, "listings": texts,
                                                             "expected": sorted(expected), "got": res})
        # on and off snapshots of every single image are told apart by vm-state size
        for im in images:
            ip = Params({"vms": "vm1", "images": im, "images_base_dir": "/nonexistent"})
            for backend, kind in ((qcow2.QCOW2Backend, "off"), (qcow2.QCOW2VTBackend, "on")):
                exp1 = sorted(tags[s] for s in kinds[im] if kinds[im][s] == kind)
                try:
                    if kind == "on":
                        got1 = sorted(qcow2.QCOW2VTBackend.show(ip.copy()))
                    else:
                        got1 = sorted(backend.show(ip.copy()))
                except Exception as ex:
                    got1 = "raised %s: %s" % (type(ex).__name__, ex)
                n_checks += 1
                if got1 != exp1:
                    v.violation("image-%s-listing" % kind, "%s listing of one image returned %s, expected %s for\n%s"
                                % (kind, got1, exp1, texts[im]), {"mode": "vt-single", "kind": kind, "listing": texts[im],
                                                                  "expected": exp1, "got": got1})
    return n_checks, {"images": kinds, "expected_vm_states": sorted(state["acc"])}


def replay_ram(state, rng, v, root):
    from avocado_i2n.states import qcow2, ramfile
    from virttest.utils_params import Params
    n = state["n"]
    images = ["image%d" % i for i in range(1, n + 1)]
    tags = {s: rng.choice(TAGS[s]) for s in TAGS}
    shutil.rmtree(root, ignore_errors=True)
    vm_dir = os.path.join(root, "vm1-xyz")
    os.makedirs(vm_dir)
    kinds = {}
    for i, im in enumerate(images):
        kinds[im] = dict(state["img"][i])
        os.makedirs(os.path.join(vm_dir, im))
        names = [s for s in kinds[im] if kinds[im][s] == "off"]
        rng.shuffle(names)
        for s in names:
            open(os.path.join(vm_dir, im, tags[s] + ".qcow2"), "w").close()
        open(os.path.join(vm_dir, im, "README.txt"), "w").close()
    mem = list(state["mem"])
    rng.shuffle(mem)
    for s in mem:
        with open(os.path.join(vm_dir, tags[s] + ".state"), "w") as f:
            f.write("x" * rng.randint(0, 5))
    params = Params({"vms": "vm1", "images": " ".join(images), "object_id": "vm1-xyz", "swarm_pool": root,
                     "pool_scope": "own", "object_type": "vms", "image_format": "qcow2",
                     "nets_gateway": "", "nets_host": "", "shared_pool": "/nonexistent/shared"})
    for im in images:
        params["image_name_" + im] = im
    old = ramfile.RamfileBackend.image_state_backend
    ramfile.RamfileBackend.image_state_backend = qcow2.QCOW2ExtBackend

    class FakeImg:
        def __init__(self, params, root_dir, tag):
            self.image_filename = os.path.join(root_dir, tag + ".qcow2")

    expected = sorted(tags[s] for s in state["acc"])
    try:
        with mock.patch.object(qcow2, "QemuImg", FakeImg):
            got = ramfile.RamfileBackend._show(params.copy())
        res = sorted(got)
        ok = res == expected
    except Exception as ex:
        ok, res = False, "raised %s: %s" % (type(ex).__name__, ex)
    finally:
        ramfile.RamfileBackend.image_state_backend = old
    if not ok:
        v.violation("ram-show images=%d" % n, "RamfileBackend._show returned %s, expected %s (memory files %s, image states %s)"
                    % (res, expected, sorted(state["mem"]), kinds),
                    {"mode": "ram", "images": kinds, "mem": sorted(state["mem"]), "tags": tags, "expected": expected, "got": res})
    return 1, {"images": kinds, "mem": sorted(state["mem"]), "expected_vm_states": sorted(state["acc"])}


def run(tier, seed):
    t0 = time.time()
    C.repo_python_setup()
    import unittest_importer  # noqa: F401
    work = C.build_dir(PID, wipe=True)
    C.stage_specs(work, os.path.join(C.SPECS, "vmstate"))
    v = C.Verdict(PID)
    rng = random.Random(seed)
    names = ["s1", "s2"] if tier == "quick" else ["s1", "s2", "s3"]
    maximg = 3
    states = transitions = 0
    replayed = evals = 0
    samples = []
    tmp = tempfile.mkdtemp(prefix="verif_c17_")
    instances = []
    try:
        for mode in ("vt", "ram"):
            cfg = "MC_%s.cfg" % mode
            write_cfg(work, cfg, names, maximg, mode)
            dump = os.path.join(work, "graph_%s" % mode)
            r = C.run_tlc(work, "VMStates", cfg, dump=dump, timeout=1800)
            if not r.ok:
                raise C.MachineryError("TLC reports a problem in the VMStates model itself (%s): %s" % (mode, r.errors[:5]))
            states += r.distinct
            transitions += r.generated
            g = C.StateGraph(dump + ".dot")
            os.unlink(dump + ".dot")
            instances.append({"mode": mode, "names": names, "max_images": maximg, "distinct_states": r.distinct,
                              "initial_configurations": len(g.inits)})
            finals = [s for s in g.states.values() if s["pc"] == "done"]
            for s in finals:
                st = {"n": s["n"], "img": [dict((str(k), str(x)) for k, x in s["img"][i].items()) for i in range(s["n"])],
                      "mem": sorted(str(x) for x in s["mem"]), "acc": sorted(str(x) for x in s["acc"])}
                if mode == "vt":
                    k, smp = replay_vt(st, rng, v)
                else:
                    k, smp = replay_ram(st, rng, v, os.path.join(tmp, "pool"))
                evals += k
                replayed += 1
                if len(samples) < 4 and s["n"] > 1 and (len(s["acc"]) > 0 or rng.random() < 0.01):
                    samples.append(dict(smp, mode=mode))
        # the model of the pinned (pre-fix) algorithm must be refuted by TLC: shows the invariant is not vacuous
        write_cfg(work, "MC_legacy.cfg", ["s1", "s2"], 2, "vt", algo="legacy")
        rl = C.run_tlc(work, "VMStates", "MC_legacy.cfg", timeout=600)
        legacy_refuted = rl.violated in ("ResultIsDefinition", "Narrowing")
        if not legacy_refuted:
            raise C.MachineryError("vacuity guard: TLC did not refute the legacy algorithm")
    finally:
        shutil.rmtree(tmp, ignore_errors=True)
    rc = v.finish()
    C.write_evidence(PID, tier, seed, "model_checking", {
        "states": states, "transitions": transitions, "traces_validated_against_impl": replayed,
        "samples": samples or [{"note": "no multi-image sample drawn"}], "exhaustive": True,
        "implementation_calls": evals, "instances": instances,
        "vacuity_guard": "legacy algorithm (re-initialise an empty running result) refuted by TLC: %s" % legacy_refuted,
        "rule": "every terminal state of the TLC state graph = one configuration (images x names x none/off/on, memory files) "
                "with the vm-level listing the spec derives; each is executed on QCOW2VTBackend.show / QCOW2Backend.show / "
                "RamfileBackend._show with a generated qemu-img listing or real directories",
    }, ["QemuImg.snapshot_list is substituted by a generated listing in qemu-img's format (sizes as printed by %0.3g); "
        "tags over [\\w.-]", "ramfile mode: real temporary directories, QCOW2ExtBackend as image backend, QemuImg constructor stubbed"],
        time.time() - t0, len(v.violations))
    return rc
