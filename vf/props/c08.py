"""C08 - tests run only on their own worker and are told where their setup lives.

Real traversals with mixed worker sets (restricted nets, one swarm, two remote clusters) under randomized
schedules and outcomes.  TLC validates at every start: the node belongs to the executing worker, and for
every required state with a producing setup test the named sources are exactly the shared pool plus the
workers holding a PASS result of the producer, with those workers' access parameters present.
"""
from ..sched import driver as D

PID = "C08"


def make_jobs(inst, rng, n):
    jobs = []
    for _ in range(n):
        mt = rng.choice([1, 1, 2])
        rp = {"max_tries": str(mt)} if mt > 1 else {}
        jobs.append({"sched": {"seed": rng.randrange(1 << 30), "statuses": ["PASS", "FAIL", "WARN"], "weights": [8, 1, 1]},
                     "store": D.random_store(inst, rng, rng.choice([0.0, 0.3, 0.6])), "run_params": rp, "cap": 8000})
    return jobs


def signature(inst, res, f):
    d = f["detail"]
    if d[0] == "sources":
        named, passed = set(d[4]), set(d[5])
        return "sources missing=%d spurious=%d" % (len(passed - named), len(named - passed))
    return str(d[0])


def describe(inst, res, f):
    d = f["detail"]
    if d[0] == "sources":
        return "%s on %s for %s was told sources %s, workers with a passing producer: %s (instance %s, event %d)" % (
            D.short(inst, d[1]), d[2], d[3], d[4], d[5], inst.name, f["event"])
    return "%s: %s on %s (instance %s, event %d)" % (d[0], D.short(inst, d[1]), d[2], inst.name, f["event"])


def run(tier, seed):
    quick = tier == "quick"
    plan = [("tut13x3", None, 40), ("tut13r", None, 25), ("tut13c", None, 25)] if quick else \
           [("tut13x3", None, 300), ("tut13x4", None, 200), ("tut13r", None, 250), ("tut13c", None, 250), ("guix3e", None, 200),
            ("getx2", None, 200), ("guic", None, 150)]
    if not quick:
        # generated suites (random setup DAGs, vf/parse/gensuite.py)
        plan += [("gen:%d:%d" % (seed + 501 + i, 2 + i % 2), None, 150) for i in range(3)]
    return D.generic_run(PID, tier, seed, plan, make_jobs, signature, describe,
                         rule="randomized schedules/outcomes over mixed worker sets (restricted net3/net5, lxc swarm, two remote clusters); TLC "
                              "validates own-worker execution and named sources = shared + workers with a passing producer at every start")


def replay(path):
    return D.replay(PID, path)
