"""C19 - tunnel end point parameters mirror each other.

TLC enumerates specs/vmnet/Tunnel.tla over the full product of local x remote x peer x auth types
(plus an unsupported value in every position, plus the psk identity variants), checks the mirror
invariants on the generated parameters, and dumps the graph.  Every (input, result) transition is
executed on the real VMTunnel built over a VMNetwork with random concrete networks; all generated
parameters of both sides and connects_nodes() for all 49 node pairs are compared with the spec.
"""
import os
import random
import time
from unittest import mock

from .. import common as C

PID = "C19"
NODE_VM = {"L": "vm1", "R": "vm2", "XL": "vm3", "XR": "vm4", "XO": "vm5", "XCL": "vm6", "XCR": "vm7"}


def make_network(rng):
    from virttest import utils_params
    from avocado_i2n.vmnet import VMNetwork
    octs = rng.sample(range(16, 250), 12)
    nets = {"LAN_L": ("172.%d.0.0" % octs[0], "255.255.0.0"), "LAN_R": ("172.%d.0.0" % octs[1], "255.255.0.0"),
            "LAN_O": ("172.%d.0.0" % octs[2], "255.255.0.0"),
            "CL": ("192.168.%d.0" % octs[3], "255.255.255.0"), "CR": ("192.168.%d.0" % octs[4], "255.255.255.0")}
    p = utils_params.Params()
    p["vms"] = " ".join("vm%d" % i for i in range(1, 8))
    p["nics"] = "b1 b2"
    p["nic_roles"] = "internet_nic lan_nic"
    p["internet_nic"] = "b1"
    p["lan_nic"] = "b2"
    p["mac"] = "00:00:00:00:00:00"
    p["netmask_b1"] = "255.255.0.0"
    ips = {}
    for i in range(1, 8):
        ips["vm%d" % i] = "10.%d.0.%d" % (octs[4 + i], rng.randint(1, 99))
        p["ip_b1_vm%d" % i] = ips["vm%d" % i]
        p["netdst_b1_vm%d" % i] = "virbr%d" % i
        p["netdst_b2_vm%d" % i] = "virbr%d" % (10 + i)
    lan = {"vm1": "LAN_L", "vm3": "LAN_L", "vm2": "LAN_R", "vm4": "LAN_R", "vm5": "LAN_O", "vm6": "CL", "vm7": "CR"}
    used = {}
    for vm, net in lan.items():
        base, mask = nets[net]
        host = used[net] = used.get(net, 0) + rng.randint(1, 40)
        p["ip_b2_%s" % vm] = base.rsplit(".", 1)[0] + ".%d" % host
        p["netmask_b2_%s" % vm] = mask
    vms = {}
    env = mock.MagicMock(name="env")
    env.get_vm = mock.MagicMock(side_effect=lambda n: vms.get(n))

    def create_vm(vm_type, target, vm_name, vm_params, bindir):
        vms[vm_name] = mock.MagicMock(name=vm_name)
        vms[vm_name].name = vm_name
        vms[vm_name].params = vm_params
        return vms[vm_name]

    env.create_vm = mock.MagicMock(side_effect=create_vm)
    net = VMNetwork(p, env)
    sym = dict(nets)
    sym["IP_L"], sym["IP_R"] = ips["vm1"], ips["vm2"]
    return net, sym


def run_case(inp, out, conn, rng, v):
    from avocado_i2n.vmnet import VMTunnel
    net, sym = make_network(rng)
    mc_ip = "172.30.%d.1" % rng.randint(0, 200)
    local1 = {"type": inp["lt"]}
    if inp["lt"] == "nic":
        local1["nic"] = "lan_nic"
    if inp["lt"] == "custom":
        local1.update({"lnet": sym["CL"][0], "lmask": sym["CL"][1], "rnet": sym["CR"][0], "rmask": sym["CR"][1]})
    remote1 = {"type": inp["rt"], "nic": "lan_nic"}
    if inp["rt"] == "modeconfig":
        remote1["modeconfig_ip"] = mc_ip
    peer1 = {"type": inp["pt"], "nic": "internet_nic"}
    if inp["at"] == "absent":
        auth = None
    else:
        auth = {"type": inp["at"]}
        if inp["at"] == "psk":
            auth.update({"psk": "the secret", "left_id": inp["lid"] and "arnold@vm1", "right_id": inp["rid"] and "bob@vm2"})
    idmap = {"": "", "idL": "arnold@vm1", "idR": "bob@vm2", "-": None, "SECRET": "the secret"}
    desc = {"local1": local1, "remote1": remote1, "peer1": peer1, "auth": auth}
    sig = "tunnel local=%s remote=%s peer=%s auth=%s" % (inp["lt"], inp["rt"], inp["pt"], inp["at"])
    try:
        t = VMTunnel("vpn1", net.nodes["vm1"], net.nodes["vm2"], dict(local1), dict(remote1), dict(peer1), auth and dict(auth))
        raised = None
    except ValueError as ex:
        raised = "ValueError: %s" % ex
    except Exception as ex:  # any other exception type is not a clean rejection
        raised = "%s: %s" % (type(ex).__name__, ex)
        if out["error"]:
            v.violation(sig + " rejects-with-wrong-exception", "unsupported type not rejected with ValueError but %s" % raised,
                        dict(desc, got=raised))
            return
    if out["error"]:
        if raised is None:
            v.violation(sig + " not-rejected", "unsupported type accepted: %s" % desc, desc)
        return
    if raised is not None:
        v.violation(sig + " raises", "supported combination raised %s" % raised, dict(desc, got=raised))
        return

    def netval(x, i):
        return None if x == "-" else sym[x][i]

    problems = []
    for side, prm in (("L", t.left_params), ("R", t.right_params)):
        e = out[side]
        exp = {
            "vpnconn": "vpn1", "vpn_side": e["side"],
            "vpnconn_lan_type": e["lan_type"], "vpnconn_remote_type": e["remote_type"],
            "vpnconn_lan_net": netval(e["lan_net"], 0), "vpnconn_lan_netmask": netval(e["lan_net"], 1),
            "vpnconn_remote_net": netval(e["remote_net"], 0), "vpnconn_remote_netmask": netval(e["remote_net"], 1),
            "vpnconn_remote_modeconfig_ip": None if e["modeconfig_ip"] == "-" else mc_ip,
            "vpnconn_peer_type": e["peer_type"],
            "vpnconn_peer_ip": None if e["peer_ip"] == "-" else sym[e["peer_ip"]],
            "vpnconn_activation": e["activation"],
            "vpnconn_key_type": out["key_type"], "vpnconn_psk": idmap[out["psk"]],
            "vpnconn_psk_own_id": idmap[e["own_id"]], "vpnconn_psk_own_id_type": None if e["own_id_type"] == "-" else e["own_id_type"],
            "vpnconn_psk_foreign_id": idmap[e["foreign_id"]],
            "vpnconn_psk_foreign_id_type": None if e["foreign_id_type"] == "-" else e["foreign_id_type"],
        }
        for k, val in exp.items():
            got = prm.get(k)
            if got != val:
                problems.append("%s side %s=%r expected %r" % (e["side"], k, got, val))
    if problems:
        v.violation(sig + " params", "; ".join(problems[:6]), dict(desc, problems=problems, symbols=sym))
    # connects_nodes for every ordered pair
    bad = []
    for a, va in NODE_VM.items():
        for b, vb in NODE_VM.items():
            try:
                got = bool(t.connects_nodes(net.nodes[va], net.nodes[vb]))
            except Exception as ex:
                got = "raised %s" % type(ex).__name__
            if got != ((a, b) in conn):
                bad.append("connects_nodes(%s,%s)=%s expected %s" % (a, b, got, (a, b) in conn))
    if bad:
        v.violation(sig + " connects", "; ".join(bad[:6]), dict(desc, problems=bad, symbols=sym))


def run(tier, seed):
    t0 = time.time()
    C.repo_python_setup()
    import unittest_importer  # noqa: F401
    work = C.build_dir(PID, wipe=True)
    C.stage_specs(work, os.path.join(C.SPECS, "vmnet"))
    v = C.Verdict(PID)
    rng = random.Random(seed)
    with open(os.path.join(work, "MC_Tunnel.cfg"), "w") as f:
        f.write("SPECIFICATION Spec\nINVARIANT MirrorNets\nINVARIANT MirrorPeers\nINVARIANT MirrorIds\nINVARIANT Counterpart\n"
                "INVARIANT Rejects\nINVARIANT ConnectSymmetric\nINVARIANT EndpointsConnected\nCHECK_DEADLOCK FALSE\n")
    dump = os.path.join(work, "graph")
    r = C.run_tlc(work, "Tunnel", "MC_Tunnel.cfg", dump=dump, timeout=900)
    if not r.ok:
        raise C.MachineryError("TLC reports a problem in the Tunnel model itself: %s" % r.errors[:5])
    g = C.StateGraph(dump + ".dot")
    rounds = 1 if tier == "quick" else 6
    n = 0
    samples = []
    for rnd in range(rounds):
        for s, d, a in g.edges:
            st = g.states[d]
            inp = {k: str(x) for k, x in st["in"].items()}
            out = C.tlaval.plain(st["out"])
            conn = {(str(p[0]), str(p[1])) for p in st["conn"]}
            run_case(inp, out, conn, rng, v)
            n += 1
            if rnd == 0 and len(samples) < 3 and not out["error"] and inp["at"] == "psk" and inp["lt"] != "nic":
                samples.append({"input": inp, "expected_left": out["L"], "expected_right": out["R"], "connected_pairs": len(conn)})
    rc = v.finish()
    C.write_evidence(PID, tier, seed, "model_checking", {
        "states": r.distinct, "transitions": r.generated, "traces_validated_against_impl": n,
        "samples": samples, "exhaustive": True, "inputs": len(g.edges), "rounds_with_fresh_random_networks": rounds,
        "rule": "every Generate transition of the TLC graph (4 local x 4 remote x 3 peer x 5 auth values incl. an unsupported one in each "
                "position, psk identity variants) executed on VMTunnel over 7 stub vms with random networks; 18 parameters per side and "
                "connects_nodes for 49 node pairs compared",
    }, ["vm objects are stubs as in the selftests (no guest configuration is performed)",
        "the right side's remote net for a custom left net is left to the caller (configure_vpn_route sets it) and modelled as absent"],
        time.time() - t0, len(v.violations))
    return rc
