"""C09 - workers get equivalent linked graph copies; lazy and eager parsing agree; parsing is deterministic.

TLC (GraphParse.Linked / SameAsReference) validates: bridging symmetric, only between equivalent nodes of
different workers, complete, registers shared; per-worker class sets and class-level edges equal; the graph a
real lazy traversal ends with (several schedules) has per worker exactly the eager dependencies and no selected
test left unexpanded; a second eager parse equals the first.
"""
from ..parse import props as PP
from ..parse import graphsnap as S

PID = "C09"


def build(tier, rng, work):
    graphs = []
    names = PP.plan(tier) + ["gui2q", "mixsets", "tut1mix"]
    for n in names:
        first = PP.eager_graph(n)
        graphs.append(first)
        if n in ("tut13", "gui3", "gui2q", "mixsets", "tut1mix") or tier != "quick":
            ref = S.class_edges(first)
            if n in ("tut13", "get2", "minc") or tier != "quick":
                second = PP.eager_graph(n, reference=ref)      # determinism
                second["label"] += " (second parse)"
                graphs.append(second)
            if n in ("tut13", "gui3", "gui2q", "mixsets", "tut1mix"):
                for sn in PP.lazy_graphs(n, [rng.randrange(1 << 30) for _ in range(4 if tier == "quick" else 16)], work):
                    sn["reference"] = [list(e) for e in ref]
                    sn["hasreference"] = True
                    graphs.append(sn)
    # generated suites: eager reference, then the graphs real lazy traversals end with
    graphs += PP.gen_lazy_graphs(rng, 2 if tier == "quick" else 12, 3 if tier == "quick" else 6, work)
    # the handcrafted suite whose producer group uses a vm its dependant does not (known finding F-C09-1)
    from ..parse import gensuite as G
    graphs += PP.gen_lazy_graphs(rng, 1, 2 if tier == "quick" else 6, work, fixed=G.EXTRA_VM_PRODUCER)
    return graphs


def run(tier, seed):
    return PP.generic(PID, tier, seed, {"C09"}, build,
                      "eager parses (bridging, per-worker equivalence), repeated parses (determinism) and graphs after real lazy traversals under "
                      "random schedules (lazy = eager, everything expanded), validated by TLC against GraphParse",
                      ["selections and worker sets of the shipped sample suite, plus generated suites (random setup DAGs on the shipped base)"])
