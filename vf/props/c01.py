"""C01 - every test starts only with its required object states available.

Real traversals (lazy and eager parsing, 2-4 workers) run in virtual time under randomized environment
schedules: durations, PASS/FAIL/ERROR placement, initial pool populations (each producible state absent /
shared / own pool of one worker), and the residue of a first run interrupted at a random event.  Every
recorded execution is validated by TLC against specs/traversal/TraversalObs.tla, whose StartOK check is
the property: at each start every required state is in a pool the worker was told to look in (and its
scope is enabled) unless the producer (or the creation step) failed in this run.
"""
import time

from .. import common as C
from ..sched import driver as D

PID = "C01"


def jobs_for(inst, rng, n, crash_frac=0.25):
    jobs = []
    for i in range(n):
        rp = {}
        if inst.lazy and i % 3 == 2:
            # narrowed reuse scopes (nodes are composed during the run, so the run parameter reaches them)
            # (scopes with both own and shared: the environment model's scan answers from the own and the shared pool)
            rp["pool_scope"] = rng.choice(["own shared", "own swarm shared", "own cluster shared"])
        if i % 4 == 1:
            # retries (a worker may meet a setup test that another worker is running or has tried)
            rp["max_tries"] = str(rng.choice([2, 3]))
            if rng.random() < 0.7:
                rp["rerun_status"] = rng.choice(["fail,error", "fail", "fail,error,warn"])
        jobs.append({"sched": {"seed": rng.randrange(1 << 30), "statuses": ["PASS", "FAIL", "ERROR", "WARN"], "weights": [8, 1, 1, 1]},
                     "store": D.random_store(inst, rng, rng.choice([0.0, 0.0, 0.3, 0.6, 0.9])), "run_params": rp})
    return jobs


def signature(inst, res, f):
    """classify a StartOK failure by what is missing and why"""
    t, w, state = f["detail"]
    store = res["job"].get("store", {})
    holders = [loc for loc, v in store.items() if state in v]
    prod = [k for k, e in inst.const["tests"].items() if state in e["sets"]]
    executed = any(e["a"] in ("start", "prestart") and e.get("t") in prod for e in res["events"])
    # the residue finding F-C01-1: the state was initially only in other workers' own pools and no execution of its producer has
    # passed before this start (an execution still in flight, or failed, on yet another worker does not make it available)
    starts = [e for e in res["events"] if e["a"] == "start" and e.get("t") == t and e["w"] == w]
    upto = starts[0]["i"] if starts else 10 ** 9
    produced = any(e["a"] == "endrun" and e.get("t") in prod and e.get("s") in ("PASS", "WARN") and e["i"] < upto for e in res["events"])
    if holders and all(h not in ("shared", w) for h in holders) and not produced:
        return "residue-only-in-foreign-own-pool"
    return "missing-state test=%s producer-executed=%s initially-in=%s" % (inst.const["tests"][t]["name"].split(".vms.")[0], executed, sorted(holders))


def replay(path):
    return D.replay(PID, path)


def run(tier, seed):
    t0 = time.time()
    C.repo_python_setup()
    import unittest_importer  # noqa: F401
    import random
    work = C.build_dir(PID, wipe=True)
    v = C.Verdict(PID)
    camp = D.Campaign(PID, work, seed)
    camp.nconf = 3 if tier == "quick" else 12
    rng = random.Random(seed)
    for ex in D.explore_plan(tier, ["NoC01"], residue=True):
        rec = camp.explore(**ex)
        if ex.get("expect_violation"):
            if not rec["violated"]:
                raise C.MachineryError("vacuity guard: the model did not reproduce the residue finding")
            rec["ok"], rec["guard"] = True, "known finding F-C01-1 reproduced by the model (expected)"
        elif rec["violated"]:
            C.log("MODEL-COUNTEREXAMPLE (not a verdict): %s %s" % (rec["violated"], rec.get("counterexample")))
            rec["ok"] = False
    quick = tier == "quick"
    plan = [("tut13x2", 40), ("guix2", 24), ("tut1x2e", 16), ("tut3fedx2", 16), ("guigetx2", 24)] if quick else \
           [("tut13x2", 300), ("guigetx2", 300), ("guigetx3", 200), ("tut3fedx2", 200), ("tut13x3", 300), ("guix2", 300), ("tut1x2e", 200), ("guix3e", 200), ("minx2", 200), ("getx2", 200), ("tut13x4", 150)]
    plan += [("gen:%d:2" % (seed + 201), 16)] if quick else [("gen:%d:%d" % (seed + 201 + i, 2 + i % 2), 150) for i in range(4)]
    camp.replay_model("tut1x2e", 6 if tier == "quick" else 40, seed=seed + 1)
    camp.replay_model("tut13x2e", 4 if tier == "quick" else 40, seed=seed + 2)
    if not quick:
        plan = [(a, max(16, int(b * D.THOROUGH_SCALE))) for a, b in plan]
    for name, n in plan:
        inst = D.make_instance(name).prepare()
        jobs = jobs_for(inst, rng, n)
        # interrupted first runs: stop a traversal after a random number of events, keep what it left in the pools
        crash_jobs = [dict(j, cap=rng.randrange(20, 400)) for j in jobs[: max(2, n // 4)]]
        first = D.P.run_jobs(inst, crash_jobs, work + "/crash_" + name)
        for r in first:
            if "harness_error" in r:
                continue
            jobs.append({"sched": {"seed": rng.randrange(1 << 30), "statuses": ["PASS", "FAIL"], "weights": [9, 1]},
                         "store": {k: list(x) for k, x in r["final_store"].items() if x}, "after_crash_at_event": r["job"]["cap"],
                         "run_params": dict(r["job"].get("run_params", {}))})
        good, traces, fails = camp.run_instance(inst, jobs, props={"C01"})
    for inst, res, f, tr in camp.failures:
        sig = signature(inst, res, f)
        t, w, state = f["detail"]
        v.violation(sig, "%s started %s on %s without %s available (instance %s, event %d)" % (w, inst.const["tests"][t]["name"].split(".vms.")[0],
                    w, state, inst.name, f["event"]), {"instance": inst.name, "job": res["job"], "failure": f})
    rc = v.finish()
    for dv in camp.conformance["diverged"][:3]:
        C.log("CONFORMANCE-DIVERGED (the algorithm model rejects a recorded execution; the property monitors decide): %s" % dv)
    camp.evidence(tier, time.time() - t0, len(v.violations),
                  "randomized environment schedules (durations, PASS/FAIL/ERROR placement, initial pools incl. residues of runs interrupted at a "
                  "random event) on real lazy/eager traversals; each trace validated by TLC against TraversalObs (StartOK at every start)",
                  ["environment model of DESIGN appendix C: a PASS/WARN end leaves the test's set states in the executing worker's own pool; "
                   "scans answer from own + shared pool", "test processes, state control and remote sessions are substituted at the seams the selftests use"],
                  {"known_findings_hit": {k: n for k, (f, n) in v.known_hit.items()}})
    return rc
