"""C07 - graph dependencies are exactly those declared in the configuration.

For each selection the class-level dependency edges of the real eager parse (per worker) are compared by TLC
(GraphParse.AsDeclared / OncePerWorker) with the edges derived by an independent resolver that uses only
virttest.cartesian_config.Parser on the suite's files (own composition of nets/vms/sets, own per-object
parameter view, get -> producing variants of all..<get> with a matching set_state, transitively).
"""
from ..parse import props as PP
from ..parse import graphsnap as S

PID = "C07"


def build(tier, rng, work):
    graphs = [PP.eager_graph(n, with_expected=True) for n in PP.plan(tier)] + PP.pair_graphs(rng, 12 if tier == "quick" else 160, with_expected=True)
    # graphs real on-demand parsing ends with: one node per test and worker also when a producer is composed as setup before it is
    # unrolled as a selected test (tests of two test sets), class-level edges as declared
    for n in ("mixsets", "get2"):
        ref = S.class_edges(PP.eager_graph(n))
        for sn in PP.lazy_graphs(n, [rng.randrange(1 << 30) for _ in range(3 if tier == "quick" else 10)], work):
            sn["reference"] = [list(e) for e in ref]
            sn["hasreference"] = True
            graphs.append(sn)
    # generated suites: the generator's own declaration checks the resolver, the resolver checks the real parse
    return graphs + PP.gen_graphs(rng, 8 if tier == "quick" else 96, work, with_expected=True)


def run(tier, seed):
    return PP.generic(PID, tier, seed, {"C07"}, build,
                      "class-level edges of real parses = edges of the independent resolver, per worker; one node per class and worker",
                      ["the independent resolver trusts virttest.cartesian_config and the suite's configuration files, nothing of cartgraph/params_parser",
                       "vm variants restricted to one per vm (CentOS/Win10/Ubuntu): no multi-variant products",
                       "generated suites vary the setup DAG above the shipped object-creation/customize/connect base, not the base itself"])
