"""C07 - graph dependencies are exactly those declared in the configuration.

For each selection the class-level dependency edges of the real eager parse (per worker) are compared by TLC
(GraphParse.AsDeclared / OncePerWorker) with the edges derived by an independent resolver that uses only
virttest.cartesian_config.Parser on the suite's files (own composition of nets/vms/sets, own per-object
parameter view, get -> producing variants of all..<get> with a matching set_state, transitively).
"""
from ..parse import props as PP

PID = "C07"


def build(tier, rng, work):
    graphs = [PP.eager_graph(n, with_expected=True) for n in PP.plan(tier)] + PP.pair_graphs(rng, 12 if tier == "quick" else 160, with_expected=True)
    # generated suites: the generator's own declaration checks the resolver, the resolver checks the real parse
    return graphs + PP.gen_graphs(rng, 8 if tier == "quick" else 96, work, with_expected=True)


def run(tier, seed):
    return PP.generic(PID, tier, seed, {"C07"}, build,
                      "class-level edges of real parses = edges of the independent resolver, per worker; one node per class and worker",
                      ["the independent resolver trusts virttest.cartesian_config and the suite's configuration files, nothing of cartgraph/params_parser",
                       "vm variants restricted to one per vm (CentOS/Win10/Ubuntu): no multi-variant products",
                       "generated suites vary the setup DAG above the shipped object-creation/customize/connect base, not the base itself"])
