"""C06 - the parsed dependency graph is well formed.

Real parses (eager for several selections x worker sets; lazy expansion during real traversals) are recorded
through wrappers (new node / descend / bridge / clone events + final snapshot of both edge maps) and replayed
by TLC against specs/parse/GraphParse.tla: every event is a spec action, and at the end of each graph WellFormed
is evaluated: unique identity, dependencies recorded on both ends and equal to the events, exactly one starting
node reaching everything, acyclic, exactly one producing parent (same worker, same object) per required state,
one net and exactly the named vms, clone sources not runnable.
"""
from ..parse import props as PP

PID = "C06"


def build(tier, rng, work):
    graphs = [PP.eager_graph(n) for n in PP.plan(tier)] + PP.pair_graphs(rng, 10 if tier == "quick" else 120)
    graphs += PP.lazy_graphs("tut13", [rng.randrange(1 << 30) for _ in range(3 if tier == "quick" else 12)], work)
    if tier != "quick":
        graphs += PP.lazy_graphs("gui3", [rng.randrange(1 << 30) for _ in range(8)], work)
    # generated suites: random setup DAGs and product tests on the shipped base, eager and after lazy traversals
    graphs += PP.gen_graphs(rng, 6 if tier == "quick" else 64, work)
    graphs += PP.gen_lazy_graphs(rng, 1 if tier == "quick" else 8, 3 if tier == "quick" else 6, work)
    # the handcrafted suite whose product-test states are named after the producing test (known finding F-C06-2)
    graphs += PP.gen_graphs(rng, 1, work, fixed="STATE_NAMED_AFTER_TEST")
    return graphs


def run(tier, seed):
    return PP.generic(PID, tier, seed, {"C06"}, build,
                      "recorded real parses replayed event by event; whole-graph invariants of GraphParse.WellFormed evaluated by TLC per graph",
                      ["selections and worker sets of the shipped sample suite (tp_folder); vm variants restricted to CentOS/Win10/Ubuntu",
                       "generated suites: random further setup tests (image and running-vm states) and product tests over vm1..vm3 (incl. multi-producer "
                       "dependencies) on top of the shipped object-creation/customize/connect base"])
