"""C05 - states are removed only after every dependant finished, and only if asked.

Real traversals of graphs with removable (unset_mode f.) states - tutorial_gui / tutorial_get, plus the
whole chain made removable through a run parameter - under randomized schedules, lazy expansion, worker
sets and pool_filter settings.  TLC validates every unset request (state removable, no dependant running or
still to be executed) and that nothing is synced with the reuse/block pool filters.
"""
from ..sched import driver as D

PID = "C05"


def make_jobs(inst, rng, n):
    jobs = []
    for _ in range(n):
        rp = {}
        r = rng.random()
        if r < 0.15:
            rp["pool_filter"] = "block"
        mt = rng.choice([1, 1, 2, 3])
        if mt > 1:
            # parallel tries: every worker may run its own copy of a dependant
            rp["max_tries"] = str(mt)
        jobs.append({"sched": {"seed": rng.randrange(1 << 30), "statuses": ["PASS", "FAIL"], "weights": [6, 1]},
                     "store": D.random_store(inst, rng, rng.choice([0.0, 0.3, 0.7])), "run_params": rp, "cap": 8000})
    return jobs


def signature(inst, res, f):
    d = f["detail"]
    return "%s state=%s all-removable=%s" % (d[0], d[1].split(":")[-1] if isinstance(d[1], str) else d[1], "unset_mode" in inst.params)


def describe(inst, res, f):
    d = f["detail"]
    return "%s: %s requested by %s (instance %s, event %d)" % (d[0], d[1], d[2], inst.name, f["event"])


def run(tier, seed):
    quick = tier == "quick"
    allrm = {"unset_mode": "fi"}
    plan = [("guix2", None, 24), ("getx3", None, 32), ("tut13x2", allrm, 20), ("guigetx2", None, 32)] if quick else \
           [("guix2", None, 300), ("getx3", None, 300), ("guigetx2", None, 300), ("guigetx3", None, 300), ("guix3e", None, 250), ("guic", None, 200), ("getx2", None, 300), ("tut13x2", allrm, 300),
            ("tut13x3", allrm, 250), ("guix2", {"pool_filter": "copy"}, 150)]
    # generated suites: random setup DAGs with removable states at any depth (vf/parse/gensuite.py)
    plan += [("gen:%d:2" % (seed + 101), None, 16)] if quick else \
            [("gen:%d:%d" % (seed + 101 + i, 2 + i % 2), None if i % 2 else allrm, 150) for i in range(4)]
    return D.generic_run(PID, tier, seed, plan, make_jobs, signature, describe, explore_plan=D.explore_plan(tier, ['NoC05'], removable=True),
                         rule="randomized schedules on graphs with removable states (tutorial_gui/tutorial_get; every state removable via "
                              "unset_mode=fi; generated suites with removable states at random depths), pool_filter reuse/block/copy; TLC validates every unset and sync request")


def replay(path):
    return D.replay(PID, path)
