"""C12 - state operations follow the documented policy table and a store model.

specs/states/StateSetup.tla = store model (root flag + set of state names per object), the check chain
with its root policy, the 2-letter mode tables of get/set/unset/push/pop and the object iteration.
TLC enumerates (P1) the full single-object table, (P3) all call sequences up to a bound on a small call
set, and simulates (P2) random stores x random calls on 2 vms x 2 images with skip_types/readonly/target
subsets.  Every transition / behaviour is executed on the real avocado_i2n.states.setup functions with an
in-memory backend registered in BACKENDS; the outcome (ok / False / TestAbortError / TestError), the
backend actions received (get/set/unset/*_root/destroy, per object) and the resulting store are compared.
"""
import itertools
import os
import random
import time
from unittest import mock

from .. import common as C
from ..tlaval import tla

PID = "C12"
LETTERS = "arifx"
DEFAULT_MODE = {"get": "ra", "set": "ff", "unset": "fi", "push": "af", "pop": None, "check": None}


def okey(o):
    o = tuple(str(x) for x in o)
    return o


class Mem:
    """in-memory backend; mirrors Do() of the spec"""
    store = {}
    acts = []

    @classmethod
    def reset(cls, root, st):
        cls.store = {o: {"root": root[o], "states": set(st[o])} for o in root}
        cls.acts = []

    @classmethod
    def _o(cls, p):
        t = p["object_type"].split("/")[-1]
        if t == "images":
            return ("img", p["vms"], p["images"])
        if t == "vms":
            return ("vm", p["vms"])
        return ("net",)

    @classmethod
    def show(cls, p, object=None):
        return sorted(cls.store[cls._o(p)]["states"])

    @classmethod
    def check_root(cls, p, object=None):
        return cls.store[cls._o(p)]["root"]

    @classmethod
    def get(cls, p, object=None):
        cls.acts.append(("get", cls._o(p), p["get_state"]))

    @classmethod
    def set(cls, p, object=None):
        o = cls._o(p)
        cls.acts.append(("set", o, p["set_state"]))
        cls.store[o]["states"].add(p["set_state"])

    @classmethod
    def unset(cls, p, object=None):
        o = cls._o(p)
        cls.acts.append(("unset", o, p["unset_state"]))
        cls.store[o]["states"].discard(p["unset_state"])

    @classmethod
    def get_root(cls, p, object=None):
        cls.acts.append(("get_root", cls._o(p), "root"))

    @classmethod
    def set_root(cls, p, object=None):
        o = cls._o(p)
        cls.acts.append(("set_root", o, "root"))
        cls.store[o]["root"] = True

    @classmethod
    def unset_root(cls, p, object=None):
        o = cls._o(p)
        cls.acts.append(("unset_root", o, "root"))
        cls.store[o]["root"] = False
        cls.store[o]["states"] = set()


def make_env(vms):
    env = mock.MagicMock(name="env")
    vmobjs = {}

    def get_vm(name):
        if name not in vmobjs:
            m = mock.MagicMock(name=name)
            m.destroy = lambda gracefully=True, _n=name: Mem.acts.append(("destroy", ("vm", _n), "root"))
            vmobjs[name] = m
        return vmobjs[name]

    env.get_vm = get_vm
    return env


def run_call(call, vms, images):
    """execute one call record on the real setup functions; returns outcome string"""
    from virttest.utils_params import Params
    from avocado.core import exceptions
    from avocado_i2n.states import setup as ss
    p = Params({"nets": "net1", "vms": " ".join(vms), "images": " ".join(images), "states_chain": "nets vms images",
                "states_nets": "mem", "states_vms": "mem", "states_images": "mem"})
    do = call["do"]
    for t in call["targets"]:
        p["%s_state_%s" % (do, t)] = call["state"]
    mode = "".join(call["mode"])
    if do == "check":
        pass
    elif do == "pop":
        p["pop_mode"] = mode
    else:
        p["%s_mode" % do] = mode
    p["check_mode"] = "".join(call["cmode"])
    if call["skip"]:
        p["skip_types"] = " ".join(sorted(call["skip"]))
    for im in call["ro"]:
        p["image_readonly_" + im] = "yes"
    env = make_env(vms)
    fn = getattr(ss, do + "_states")
    try:
        res = fn(p, env)
        if do == "check":
            return "ok" if res else "false"
        return "ok"
    except exceptions.TestAbortError:
        return "abort"
    except exceptions.TestError:
        return "error"
    except Exception as ex:
        return "raised %s: %s" % (type(ex).__name__, ex)


def gen_calls(rng, kind):
    calls = []
    if kind == "table":
        for do in ("get", "set", "unset", "push", "pop"):
            for state in ("s1", "root"):
                for l1 in LETTERS:
                    for l2 in LETTERS:
                        for cm in ("rf", "rr", "ff", "rx"):
                            calls.append(dict(do=do, targets=["images"], state=state, mode=[l1, l2], cmode=list(cm), skip=[], ro=[]))
        for state in ("s1", "root"):
            for cm in ("rf", "rr", "ff", "rx", "fr"):
                calls.append(dict(do="check", targets=["images"], state=state, mode=["r", "f"], cmode=list(cm), skip=[], ro=[]))
    elif kind == "sequence":
        for state in ("s1", "s2"):
            calls.append(dict(do="set", targets=["images"], state=state, mode=list("ff"), cmode=list("rf"), skip=[], ro=[]))
            calls.append(dict(do="unset", targets=["images"], state=state, mode=list("fi"), cmode=list("rf"), skip=[], ro=[]))
            calls.append(dict(do="push", targets=["images"], state=state, mode=list("af"), cmode=list("rf"), skip=[], ro=[]))
            calls.append(dict(do="pop", targets=["images"], state=state, mode=list("ra"), cmode=list("rf"), skip=[], ro=[]))
        calls.append(dict(do="get", targets=["images"], state="s1", mode=list("ra"), cmode=list("rf"), skip=[], ro=[]))
        calls.append(dict(do="set", targets=["vms"], state="s1", mode=list("ff"), cmode=list("rf"), skip=[], ro=[]))
        calls.append(dict(do="unset", targets=["images", "vms"], state="s1", mode=list("fi"), cmode=list("rf"), skip=[], ro=["image2"]))
        calls.append(dict(do="set", targets=["images"], state="root", mode=list("ff"), cmode=list("rf"), skip=[], ro=[]))
        calls.append(dict(do="unset", targets=["images"], state="root", mode=list("fi"), cmode=list("rr"), skip=[], ro=[]))
        calls.append(dict(do="check", targets=["images", "vms"], state="s1", mode=list("rf"), cmode=list("rf"), skip=[], ro=[]))
    elif kind == "product":
        types = ["nets", "vms", "images"]
        tsets = [list(c) for k in (1, 2, 3) for c in itertools.combinations(types, k)]
        skips = [list(c) for k in (0, 1, 2, 3) for c in itertools.combinations(["nets", "nets/vms", "nets/vms/images"], k)]
        modes = ["ra", "ff", "fi", "af", "rr", "ii", "aa", "fa", "ri", "xf"]
        for do in ("get", "set", "unset", "push", "pop", "check"):
            for ts in tsets:
                for state in ("s1", "s2", "root"):
                    for m in modes:
                        for cm in ("rf", "rr"):
                            sk = rng.choice(skips) if do not in ("push", "pop") else []
                            ro = rng.choice([[], [], ["image1"], ["image2"]]) if do not in ("push", "pop") else []
                            calls.append(dict(do=do, targets=ts, state=state, mode=list(m), cmode=list(cm), skip=sk, ro=ro))
    return calls


def write_model(work, name, vms, images, snames, calls, maxcalls, initstores):
    with open(os.path.join(work, name + ".tla"), "w") as f:
        f.write("---- MODULE %s ----\nEXTENDS StateSetup\nMCVMs == %s\nMCImages == %s\nMCCalls == <<\n" % (name, tla(vms), tla(images)))
        f.write(",\n".join(
            "[do |-> %s, targets |-> %s, state |-> %s, mode |-> %s, cmode |-> %s, skip |-> %s, ro |-> %s]"
            % (tla(c["do"]), tla(set(c["targets"])), tla(c["state"]), tla(c["mode"]), tla(c["cmode"]), tla(set(c["skip"])), tla(set(c["ro"])))
            for c in calls))
        f.write("\n>>\n====\n")
    with open(os.path.join(work, name + ".cfg"), "w") as f:
        f.write("SPECIFICATION Spec\nCONSTANTS\n VMs <- MCVMs\n Images <- MCImages\n SNames = %s\n Calls <- MCCalls\n MaxCalls = %d\n InitStores = %s\n"
                % (tla(set(snames)), maxcalls, tla(initstores)))
        f.write("INVARIANT NonInterference\nPROPERTY OnlyChangedWhereWritten\nPROPERTY PlainStore\nPROPERTY ReadOnlyOps\nCHECK_DEADLOCK FALSE\n")


def store_of(st):
    root = {okey(o): bool(x) for o, x in st["root"].items()}
    sts = {okey(o): {str(s) for s in x} for o, x in st["st"].items()}
    return root, sts


def replay(beh, calls, vms, images, v, tag):
    """beh: list of spec states (first = Init)"""
    from avocado_i2n.states import setup as ss
    root, sts = store_of(beh[0])
    Mem.reset(root, sts)
    history = []
    n = 0
    for st in beh[1:]:
        call = calls[st["last"] - 1]
        history.append(call)
        Mem.acts = []
        with mock.patch.dict(ss.BACKENDS, {"mem": Mem}, clear=True):
            got = run_call(call, vms, images)
        n += 1
        exp = str(st["outcome"])
        e_acts = [(str(a["act"]), okey(a["obj"]), str(a["state"])) for a in st["acts"]]
        e_root, e_sts = store_of(st)
        g_root = {o: x["root"] for o, x in Mem.store.items()}
        g_sts = {o: set(x["states"]) for o, x in Mem.store.items()}
        problems = []
        if got != exp:
            problems.append("outcome %s, table says %s" % (got, exp))
        if Mem.acts != e_acts:
            problems.append("backend actions %s, table says %s" % (Mem.acts, e_acts))
        if g_root != e_root or g_sts != e_sts:
            diff = {o: (g_root[o], sorted(g_sts[o])) for o in g_root if g_root[o] != e_root[o] or g_sts[o] != e_sts[o]}
            problems.append("resulting store differs at %s (expected %s)" % (diff, {o: (e_root[o], sorted(e_sts[o])) for o in diff}))
        if problems:
            sig = "%s do=%s state=%s mode=%s cmode=%s" % (tag, call["do"], "root" if call["state"] == "root" else "ordinary",
                                                           "".join(call["mode"]), "".join(call["cmode"]))
            v.violation(sig, "; ".join(problems), {"initial_store": {"root": {"/".join(o): x for o, x in store_of(beh[0])[0].items()},
                                                                      "states": {"/".join(o): sorted(x) for o, x in store_of(beh[0])[1].items()}},
                                                    "calls": history, "problems": problems})
            return n
    return n


def run(tier, seed):
    t0 = time.time()
    C.repo_python_setup()
    import unittest_importer  # noqa: F401
    work = C.build_dir(PID, wipe=True)
    C.stage_specs(work, os.path.join(C.SPECS, "states"))
    v = C.Verdict(PID)
    rng = random.Random(seed)
    quick = tier == "quick"
    states = transitions = replayed = steps = 0
    instances, samples = [], []

    # P1: the full table on one image; P3: all call sequences on 1 vm x 2 images
    plans = [("MC_table", ["vm1"], ["image1"], ["s1"], gen_calls(rng, "table"), 1, "images" if quick else "all"),
             ("MC_sequence", ["vm1"], ["image1", "image2"], ["s1", "s2"], gen_calls(rng, "sequence"), 2 if quick else 3, "canonical")]
    for name, vms, images, snames, calls, maxcalls, initstores in plans:
        write_model(work, name, vms, images, snames, calls, maxcalls, initstores)
        dump = os.path.join(work, "graph_" + name)
        r = C.run_tlc(work, name, name + ".cfg", dump=dump, timeout=6000)
        if not r.ok:
            raise C.MachineryError("TLC reports a problem in the StateSetup model itself (%s): %s" % (name, r.errors[:5]))
        states += r.distinct
        transitions += r.generated
        g = C.StateGraph(dump + ".dot")
        os.unlink(dump + ".dot")
        paths = g.cover_paths()
        for p in paths:
            beh = [g.states[p[0]]] + [g.states[sid] for _, sid in p[1:]]
            steps += replay(beh, calls, vms, images, v, name)
            replayed += 1
        instances.append({"instance": name, "calls": len(calls), "max_calls": maxcalls, "initial_stores": initstores,
                          "distinct_states": r.distinct, "edges": len(g.edges), "cover_paths": len(paths)})
        if paths:
            p = max(paths, key=len)
            samples.append({"instance": name, "calls": [calls[g.states[sid]["last"] - 1] for _, sid in p[1:]],
                            "expected_outcomes": [str(g.states[sid]["outcome"]) for _, sid in p[1:]]})

    # P2: product of targets x skip_types x readonly x modes on 2 vms x 2 images, random stores, by simulation
    vms, images = ["vm1", "vm2"], ["image1", "image2"]
    calls = gen_calls(rng, "product")
    write_model(work, "MC_product", vms, images, ["s1", "s2"], calls, 4, "sparse")
    num = 300 if quick else 4000
    rs, behs = C.simulate(work, "MC_product", "MC_product.cfg", num, 5, seed + 5, timeout=3000)
    if rs.violated:
        raise C.MachineryError("TLC simulation reports a problem in the StateSetup model itself: %s" % rs.errors[:5])
    for beh in behs:
        steps += replay([s for _, s in beh], calls, vms, images, v, "MC_product")
        replayed += 1
    instances.append({"instance": "MC_product-simulation", "calls": len(calls), "behaviours": len(behs), "depth": 5})
    rc = v.finish()
    C.write_evidence(PID, tier, seed, "model_checking", {
        "states": states, "transitions": transitions, "traces_validated_against_impl": replayed,
        "samples": samples, "exhaustive": True, "implementation_calls_compared": steps, "instances": instances,
        "rule": "MC_table: every (operation, root/ordinary state, 25 mode letter pairs incl. invalid, 4 check modes) x every store of one image; "
                "MC_sequence: every sequence of calls up to the bound; MC_product: simulated behaviours over random stores of 2 vms x 2 images "
                "with target-type, skip_types and readonly subsets. Each transition executed on avocado_i2n.states.setup with an in-memory "
                "backend: outcome, backend actions per object, resulting store compared",
    }, ["the in-memory backend defines unset_root as removing the object together with its states",
        "an abort ends the call; objects handled earlier in the iteration keep their documented effect (per-object reading of the table)",
        "push/pop restrict the inner call to one object and do not consult skip_types/readonly (modelled as coded)"],
        time.time() - t0, len(v.violations))
    return rc
