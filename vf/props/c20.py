"""C20 - manual steps act once per selected vm and worker, in the given order.

specs/tools/ManuChain.tla: (A) the chain loop of Manu.run - every step attempted once, in order, failure (non-zero
return or exception) reported as 1 without stopping the chain; (B) one tool call - state steps are one test per
selected vm per compatible worker, vm-management steps one test per compatible worker for all selected vms.
TLC enumerates all chains up to the bound x outcome placements, and all tool x vm selection x worker set
combinations; every transition is executed on the real Manu.run (with recording steps) resp. on the real
intertest_setup.<tool> under the traversal environment (executions observed at TestRunner.run_test_task).
"""
import os
import random
import time
from unittest import mock

from .. import common as C
from ..tlaval import tla
from .c15 import fork_map

PID = "C20"
VM_VARIANT = {"vm1": "CentOS", "vm2": "Win10", "vm3": "Ubuntu"}
STATE_STEPS = ["check", "get", "set", "unset", "push", "pop"]
VM_STEPS = ["boot", "shutdown", "download", "upload", "control"]
# what the restrictions of the sample nets admit for the variants above (net5: only_vm1 = Fedora)
COMPAT = {"net1": ["vm1", "vm2", "vm3"], "net2": ["vm1", "vm2", "vm3"], "net3": ["vm1", "vm2", "vm3"], "net5": ["vm2", "vm3"]}


def run_chain(chain):
    """real Manu.run with recording steps; chain = [(step, outcome)]"""
    from avocado_i2n.plugins import manu
    from avocado_i2n import intertest_setup as intertest
    from virttest.utils_params import Params
    calls = []

    def make(step, k):
        def f(config, tag=""):
            calls.append([step, tag, int(config["vms_params"]["count"])])
            o = chain[k][1]
            if o == "zero":
                return 0
            if o == "none":
                return None
            if o == "one":
                return 1
            raise RuntimeError("step %s fails" % step)
        return f

    def fake_params_from_cmd(config):
        config["vms_params"] = Params({"setup": " ".join("step%d" % i for i in range(len(chain)))})

    patches = [mock.patch.object(manu.cmd_parser, "params_from_cmd", fake_params_from_cmd),
               mock.patch.object(intertest, "load_addons_tools", lambda: None), mock.patch.object(manu, "LOG_UI", mock.MagicMock())]
    for i, (step, _) in enumerate(chain):
        patches.append(mock.patch.object(intertest, "step%d" % i, make(step, i), create=True))
    for p in patches:
        p.start()
    try:
        rc = manu.Manu().run({"i2n.manu.params": []})
    finally:
        for p in reversed(patches):
            p.stop()
    return {"rc": rc, "calls": calls}


def _run_tool(args):
    tool, sel, nets = args
    C.repo_python_setup()
    import unittest_importer  # noqa: F401
    from ..tools import harness as T
    from ..sched import harness as H
    cfg = T.base_config(" ".join(nets), {v: "only %s\n" % VM_VARIANT[v] for v in sel})
    cfg["param_dict"]["verif_marker"] = "m-%s" % tool
    out = T.run_tool(tool, cfg, {}, H.Schedule(1, durations=(0.2, 1.0)), tag="0m0")
    execs = []
    for e in out["events"]:
        if e["a"] == "start":
            execs.append([e["w"], sorted(e.get("vms", "").split()), e.get("vm_action", ""), e.get("marker", ""), e.get("own")])
    return {"exc": out["exc"], "retcode": out["retcode"], "execs": execs}


REAL_TOOLS = ["check", "get", "set", "unset", "push", "pop", "create", "clean", "collect"]
USER_VALUES = {"pool_scope": "own shared", "check_mode_images": "ff"}
# what the create / clean / collect templates set for the duration of their step (intertest_setup)
TEMPLATE = {"create": {"pool_scope": "own", "check_mode_images": "rr"}, "clean": {"pool_scope": "own", "check_mode_images": "rf"},
            "collect": {"pool_scope": "swarm cluster shared", "check_mode_images": "rr"}}


def _run_real_chain(args):
    """part C: the steps of a chain of real tools, one shared run configuration (as Manu.run calls them)"""
    chain, user = args
    C.repo_python_setup()
    import unittest_importer  # noqa: F401
    from ..tools import harness as T
    from ..sched import harness as H
    cfg = T.base_config("net1", {"vm1": "only CentOS\n"})
    for k, val in user.items():
        if val == "user":
            cfg["param_dict"][k] = USER_VALUES[k]
    steps = []
    for i, (tool, outcome) in enumerate(chain):
        before = {k: cfg["param_dict"].get(k) for k in USER_VALUES}
        out = T.run_tool(tool, cfg, {}, H.Schedule(1 + i, statuses=["PASS" if outcome == "ok" else "FAIL"], durations=(0.2,)), tag="0m%d" % i)
        after = {k: cfg["param_dict"].get(k) for k in USER_VALUES}
        pms = [e.get("pm", {}) for e in out["events"] if e["a"] == "start"]
        steps.append({"tool": tool, "retcode": out["retcode"], "exc": out["exc"], "executions": len(pms), "pm": pms, "before": before, "after": after})
    return {"steps": steps}


def run(tier, seed):
    t0 = time.time()
    C.repo_python_setup()
    import unittest_importer  # noqa: F401
    work = C.build_dir(PID, wipe=True)
    C.stage_specs(work, os.path.join(C.SPECS, "tools"))
    v = C.Verdict(PID)
    rng = random.Random(seed)
    quick = tier == "quick"
    nets_all = ["net1", "net2", "net5"] if quick else ["net1", "net2", "net3", "net5"]
    with open(os.path.join(work, "MC_Manu.tla"), "w") as f:
        f.write("---- MODULE MC_Manu ----\nEXTENDS ManuChain\nMCCompat == %s\nMCOverriding == %s\n====\n"
                % (tla({n: set(COMPAT[n]) for n in nets_all}), tla({t: set(TEMPLATE.get(t, {})) for t in REAL_TOOLS})))
    with open(os.path.join(work, "MC_Manu.cfg"), "w") as f:
        f.write("SPECIFICATION Spec\nCONSTANTS\n Steps = {\"a\", \"b\"}\n Outcomes = {\"zero\", \"none\", \"one\", \"raise\"}\n MaxChain = %d\n"
                " StateSteps = %s\n VmSteps = %s\n VMs = %s\n Nets = %s\n Compatible <- MCCompat\n RealTools = %s\n Overriding <- MCOverriding\n UserKeys = %s\n MaxReal = 2\n"
                % (2 if quick else 3, tla(set(STATE_STEPS)), tla(set(VM_STEPS)), tla({"vm1", "vm2", "vm3"}), tla(set(nets_all)), tla(set(REAL_TOOLS)), tla(set(USER_VALUES))))
        f.write("INVARIANT AllAttemptedInOrder\nINVARIANT FailureReported\nINVARIANT OncePerVmAndWorker\nINVARIANT StepParamsOwn\nINVARIANT RealFailureReported\nCHECK_DEADLOCK FALSE\n")
    dump = os.path.join(work, "graph")
    r = C.run_tlc(work, "MC_Manu", "MC_Manu.cfg", dump=dump, timeout=3000)
    if not r.ok:
        raise C.MachineryError("TLC reports a problem in the ManuChain model itself: %s" % r.errors[:5])
    g = C.StateGraph(dump + ".dot")
    os.unlink(dump + ".dot")
    # part A: every complete chain behaviour (paths from the initial chain states)
    nchain = ntool = 0
    samples = []
    for sid in g.inits:
        st = g.states[sid]
        if str(st["phase"]) != "chain":
            continue
        chain = [(str(c["step"]), str(c["outcome"])) for c in st["chain"]]
        got = run_chain(chain)
        nchain += 1
        exp_rc = 1 if any(o in ("one", "raise") for _, o in chain) else 0
        exp_calls = [[s, "0m%d" % i, i] for i, (s, _) in enumerate(chain)]
        if got["rc"] != exp_rc or got["calls"] != exp_calls:
            v.violation("chain len=%d outcomes=%s" % (len(chain), "+".join(sorted({o for _, o in chain}))),
                        "chain %s: return code %s (expected %s), steps attempted %s (expected %s)" % (chain, got["rc"], exp_rc, got["calls"], exp_calls),
                        {"chain": chain, "got": got})
        if len(samples) < 1 and len(chain) > 1:
            samples.append({"chain": chain, "expected_rc": exp_rc})
    # part B: tool transitions; the quick tier samples them
    tool_edges = [(s, d) for s, d, a in g.edges if a == "RunTool"]
    rng.shuffle(tool_edges)
    if quick:
        tool_edges = tool_edges[:64]
    else:
        tool_edges = tool_edges[:220]
    items, expects = [], []
    for s, d in tool_edges:
        pre, post = g.states[s], g.states[d]
        items.append((str(pre["tool"]), sorted(str(x) for x in pre["sel"]), sorted(str(x) for x in pre["nets"])))
        expects.append(sorted([str(e[0]), sorted(str(x) for x in e[1])] for e in post["execs"]))
    results = fork_map(_run_tool, items)
    for (tool, sel, nets), exp, got in zip(items, expects, results):
        if "harness_error" in got:
            raise C.MachineryError("tool run failed in the harness: %s" % got["harness_error"])
        ntool += 1
        sig = "tool=%s template=%s nets=%d restricted=%s" % (tool, "state" if tool in STATE_STEPS else "vm", len(nets), "net5" in nets)
        desc = {"tool": tool, "selected": sel, "nets": nets}
        if got["exc"]:
            v.violation(sig + " raises", "%s for %s on %s raised %s" % (tool, sel, nets, got["exc"]), dict(desc, got=got))
            continue
        gex = sorted([e[0], e[1]] for e in got["execs"])
        problems = []
        if gex != exp:
            problems.append("executions %s, expected %s" % (gex, exp))
        want_action = {"boot": "boot", "shutdown": "shutdown", "download": "download", "upload": "upload", "control": "run"}.get(tool, tool)
        for e in got["execs"]:
            if e[2] != want_action or e[3] != "m-%s" % tool or e[4] is not True:
                problems.append("execution %s without the step's parameters (vm_action=%s marker=%s own-worker=%s)" % (e[:2], e[2], e[3], e[4]))
        if problems:
            v.violation(sig, "; ".join(problems[:2]), dict(desc, got=got, expected=exp))
        if len(samples) < 3:
            samples.append(dict(desc, expected_executions=exp))
    # part C: chains of real tools sharing one run configuration (TLC's terminal states of phase "real" give, per step, the
    # parameters it must run with and what its tool must report)
    real = []
    for sid in g.inits:
        st = g.states[sid]
        if str(st["phase"]) != "real":
            continue
        cur = sid
        while [d for d, a in g.out.get(cur, []) if d != cur]:
            cur = [d for d, a in g.out[cur] if d != cur][0]
        end = g.states[cur]
        real.append(([(str(c["step"]), str(c["outcome"])) for c in st["chain"]], {str(k): str(x) for k, x in st["pd"].items()},
                     [({str(k): str(x) for k, x in e["params"].items()}, str(e["reports"])) for e in end["seen"]]))
    rng.shuffle(real)
    # always some chains in which a templated tool is followed by another step / fails alone
    prio = [x for x in real if len(x[0]) == 2 and x[0][0][0] in TEMPLATE and "user" in x[1].values()][:6 if quick else 40]
    prio += [x for x in real if len(x[0]) == 1 and x[0][0][0] in TEMPLATE and x[0][0][1] == "fail"][:3 if quick else 12]
    rest = [x for x in real if x not in prio][:9 if quick else 120]
    chosen = prio + rest
    nreal = 0
    for (chain, user, seen), got in zip(chosen, fork_map(_run_real_chain, [(c, u) for c, u, _ in chosen])):
        if "harness_error" in got:
            raise C.MachineryError("real chain failed in the harness: %s" % got["harness_error"])
        nreal += 1
        for k, ((tool, outcome), (params, reports), step) in enumerate(zip(chain, seen, got["steps"])):
            sig = "real-chain step=%s after=%s" % (tool, chain[k - 1][0] if k else "-")
            if step["exc"]:
                v.violation(sig + " raises", "chain %s: step %s raised %s" % (chain, tool, step["exc"]), {"chain": chain, "user": user, "got": got})
                continue
            said = "success" if step["retcode"] in (None, 0) else "failure"
            if step["executions"] and said != reports:
                v.violation("real-chain tool=%s reports=%s expected=%s" % (tool, said, reports),
                            "chain %s (user parameters %s): the test of step %d (%s) ended %s but the tool returned %r, which Manu.run counts as %s"
                            % (chain, user, k, tool, outcome, step["retcode"], said), {"chain": chain, "user": user, "got": got})
            for key, val in params.items():
                want = USER_VALUES[key] if val == "user" else (TEMPLATE[val][key] if val in TEMPLATE else None)
                if want is None:
                    continue     # neither the user nor this step's template sets it: the suite's default
                bad = [pm for pm in step["pm"] if pm.get(key) != want]
                if bad:
                    v.violation(sig + " params", "chain %s (user parameters %s): step %d (%s) ran with %s=%r, expected %r"
                                % (chain, user, k, tool, key, bad[0].get(key), want), {"chain": chain, "user": user, "got": got})
            if step["after"] != step["before"]:
                v.violation(sig + " run-parameters-changed", "chain %s: step %s left the run parameters %s (before: %s)" % (chain, tool, step["after"], step["before"]),
                            {"chain": chain, "user": user, "got": got})
        if len(samples) < 4:
            samples.append({"real_chain": chain, "user_parameters": user, "expected_per_step": seen})
    rc = v.finish()
    C.write_evidence(PID, tier, seed, "model_checking", {
        "states": r.distinct, "transitions": r.generated, "traces_validated_against_impl": nchain + ntool, "samples": samples,
        "chains_executed": nchain, "tool_calls_executed": ntool, "real_chains_executed": nreal, "real_chains_in_model": len(real), "tool_calls_in_model": len([1 for s, d, a in g.edges if a == "RunTool"]),
        "rule": "all chains up to the bound x {return 0, return None, return 1, raise} per position executed on Manu.run with recording steps; "
                "tool x vm selection x worker set transitions (sampled in the quick tier) executed on intertest_setup.<tool> under the "
                "traversal environment: executions per worker and vm, vm_action, a marker parameter and own-worker execution compared; "
                "chains of up to two real tools (incl. create/clean/collect) x test outcome x user-given pool_scope/check_mode_images on one shared "
                "configuration: parameters each step runs with, run parameters kept, failure reported by the tool",
    }, ["cmd_parser.params_from_cmd and load_addons_tools are substituted for part A (the chain is given directly)",
        "compatibility of the sample nets with the chosen vm variants is a constant of the model (net5 excludes vm1=CentOS)"],
        time.time() - t0, len(v.violations))
    return rc
