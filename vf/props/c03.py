"""C03 - no test is executed more often than its retry budget per reuse scope.

Real traversals under randomized schedules over max_tries / max_concurrent_tries / pool_scope subsets /
spawner kinds (lxc nets, remote clusters), initial pools and PASS/FAIL placements; TLC validates every
trace against TraversalObs: executions per test and scope <= budget, a first examination whose scan finds
all produced states forbids executions in that scope, clone sources are never executed.
"""
from ..sched import driver as D

PID = "C03"
SCOPES = ["own swarm cluster shared", "own cluster shared", "own swarm shared", "own shared"]


def make_jobs(inst, rng, n):
    jobs = []
    for _ in range(n):
        mt = rng.choice([1, 1, 2, 3])
        rp = {"pool_scope": rng.choice(SCOPES)}
        if mt > 1:
            rp["max_tries"] = str(mt)
            if rng.random() < 0.3:
                rp["max_concurrent_tries"] = str(rng.randint(1, mt))
        jobs.append({"sched": {"seed": rng.randrange(1 << 30), "statuses": ["PASS", "FAIL"], "weights": [3, 1]},
                     "store": D.random_store(inst, rng, rng.choice([0.0, 0.4, 0.8])), "run_params": rp, "cap": 8000})
    return jobs


def signature(inst, res, f):
    d = f["detail"]
    if d[0] == "budget":
        kind = "creation-node" if inst.const["tests"][d[1]]["objroot"] else "test"
        return "budget-exceeded %s max_tries>1=%s" % (kind, d[4] > 1)
    return "%s %s" % (d[0], D.short(inst, d[1]))


def describe(inst, res, f):
    d = f["detail"]
    return "%s: %s in scope %s (instance %s, run params %s, event %d)" % (d[0], D.short(inst, d[1]), d[2] if len(d) > 2 else "-", inst.name,
                                                                          res["job"].get("run_params"), f["event"])


def run(tier, seed):
    quick = tier == "quick"
    plan = [("tut13x2", None, 40), ("tut13c", None, 30), ("guix2", None, 25)] if quick else \
           [("tut13x2", None, 300), ("tut13x3", None, 250), ("tut13c", None, 250), ("tut1c", None, 200), ("guix2", None, 250), ("guic", None, 200),
            ("getx2", None, 200), ("tut1x1", None, 100)]
    if not quick:
        # generated suites (random setup DAGs, vf/parse/gensuite.py)
        plan += [("gen:%d:%d" % (seed + 401 + i, 2 + i % 2), None, 150) for i in range(3)]
    return D.generic_run(PID, tier, seed, plan, make_jobs, signature, describe, explore_plan=D.explore_plan(tier, ['NoC03'], retries=True),
                         rule="randomized schedules x max_tries {1,2,3} x max_concurrent_tries x pool_scope subsets x lxc/remote worker sets x "
                              "initial pools; TLC validates start counts per test and reuse scope, scan-found => not executed, clone sources never executed")


def replay(path):
    return D.replay(PID, path)
