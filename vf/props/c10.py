"""C10 - retry, stop, replay and verdict rules are followed exactly.

Real traversals with retries enabled under randomized outcome sequences over the reportable statuses,
max_tries / rerun_status / stop_status settings (valid and invalid), 1-3 workers, leaves, shared setup and
object creation.  TLC validates per test and reuse scope that executions continue exactly while tries
remain, all statuses are in the rerun set and none in the stop set; that execution identifiers are not
reused; that each node records the statuses reported for its own executions; and that the runner's verdict
equals "every executed test has an acceptable result".  Invalid settings must end the run with an error.
"""
from ..sched import driver as D

PID = "C10"
STAT = ["PASS", "FAIL", "ERROR", "WARN", "SKIP", "CANCEL", "INTERRUPTED"]
INVALID = [{"max_tries": "-1"}, {"max_tries": "x"}, {"max_tries": "2", "rerun_status": "bogus"}, {"max_tries": "2", "stop_status": "fail,nonsense"}]


def make_jobs(inst, rng, n):
    jobs = []
    for i in range(n):
        if i % 8 == 7:
            rp = dict(rng.choice(INVALID))
            jobs.append({"sched": {"seed": rng.randrange(1 << 30), "statuses": ["PASS"]}, "store": {}, "run_params": rp, "cap": 6000, "invalid": True})
            continue
        rp = {"max_tries": str(rng.choice([2, 3, 3, 4, 4, 0, 1]))}
        r = rng.random()
        common = [["pass"], ["fail"], ["fail", "error"], ["pass", "warn"], ["warn"], ["skip"]]
        if r < 0.35:
            rp["rerun_status"] = ",".join(rng.choice(common + [[s.lower() for s in rng.sample(STAT, rng.randint(1, 2))]]))
        elif r < 0.75:
            rp["stop_status"] = ",".join(rng.choice(common + [[s.lower() for s in rng.sample(STAT, rng.randint(1, 2))]]))
        w = [6, 2, 2, 1, 1, 1, 1]
        jobs.append({"sched": {"seed": rng.randrange(1 << 30), "statuses": STAT, "weights": w},
                     "store": D.random_store(inst, rng, rng.choice([0.0, 0.5, 1.0])), "run_params": rp, "cap": 6000})
    return jobs


def settings_of(job):
    return {"norerunrule": bool(job.get("invalid"))}


def signature(inst, res, f):
    d = f["detail"]
    if d[0].startswith("tries") or d[0] in ("own-result", "uid-reused"):
        t = d[1]
        return "%s %s" % (d[0], "creation-node" if inst.const["tests"][t]["objroot"] else ("setup" if inst.const["tests"][t]["sets"] else "leaf"))
    return str(d[0])


def describe(inst, res, f):
    d = f["detail"]
    return "%s: %s (instance %s, run params %s, event %d)" % (d[0], [D.short(inst, x) if isinstance(x, str) and x in inst.const["tests"] else x for x in d[1:]],
                                                             inst.name, res["job"].get("run_params"), f["event"])


def post(inst, good, traces, v):
    for r in good:
        if r["job"].get("invalid") and not r["outcome"].startswith("error:ValueError"):
            v.violation("invalid-setting-not-rejected %s" % sorted(r["job"]["run_params"].items()),
                        "run with %s ended with outcome %s instead of a ValueError" % (r["job"]["run_params"], r["outcome"]),
                        {"instance": inst.name, "instance_params": inst.params, "job": r["job"]})


def run(tier, seed):
    quick = tier == "quick"
    plan = [("tut1x1", None, 32), ("tut13x3", None, 56), ("guix2", None, 24)] if quick else \
           [("tut1x1", None, 400), ("tut13x2", None, 400), ("tut13x3", None, 300), ("guix2", None, 300), ("minx2", None, 200), ("tut13c", None, 200)]
    return D.generic_run(PID, tier, seed, plan, make_jobs, signature, describe, explore_plan=D.explore_plan(tier, ['NoC10'], retries=True), settings_of=settings_of, post=post,
                         rule="randomized outcome sequences over 7 reportable statuses x max_tries {0,1,2,3} x rerun/stop subsets x initial pools; "
                              "invalid settings (-1, x, unknown status names) must raise; TLC validates tries rule, uid freshness, own results, verdict",
                         assumptions=["replay of previous jobs is exercised by the separate replay jobs only when listed in instances"])


def replay(path):
    return D.replay(PID, path)
