"""C10 - retry, stop, replay and verdict rules are followed exactly.

Real traversals with retries enabled under randomized outcome sequences over the reportable statuses,
max_tries / rerun_status / stop_status settings (valid and invalid), 1-3 workers, leaves, shared setup and
object creation.  TLC validates per test and reuse scope that executions continue exactly while tries
remain, all statuses are in the rerun set and none in the stop set; that execution identifiers are not
reused; that each node records the statuses reported for its own executions; and that the runner's verdict
equals "every executed test has an acceptable result".  Invalid settings must end the run with an error.
"""
from .. import common as C
from ..sched import driver as D

PID = "C10"
STAT = ["PASS", "FAIL", "ERROR", "WARN", "SKIP", "CANCEL", "INTERRUPTED"]
INVALID = [{"max_tries": "-1"}, {"max_tries": "x"}, {"max_tries": "2", "rerun_status": "bogus"}, {"max_tries": "2", "stop_status": "fail,nonsense"}]


def executions_of(res):
    """(class, worker, full name, uid, status) of every finished execution of a recorded run, in end order"""
    open_, out = {}, []
    for e in res["events"]:
        if e["a"] in ("start", "prestart"):
            open_[(e["w"], e["t"])] = e
        elif e["a"] in ("endrun", "preend") and (e["w"], e["t"]) in open_:
            st = open_.pop((e["w"], e["t"]))
            if e["a"] == "endrun" and e.get("s") not in (None, "-", "LOST", "RUN"):
                out.append((e["t"], e["w"], st["name"], st["uid"], e["s"]))
    return out


def make_replay_jobs(inst, rng, n):
    """phase A: complete jobs on the same selection without replay; phase B (returned): each replays one of them -
    its result file as previous results, its final pool with some states removed, under its own retry settings"""
    import os
    from ..sched import pool as P
    base = {k: v for k, v in inst.params.items() if k != "replay"}
    first = D.make_instance(inst.name, base).prepare()
    w = [5, 3, 2, 1, 1, 1, 1]
    jobs_a = [{"sched": {"seed": rng.randrange(1 << 30), "statuses": STAT, "weights": w}, "store": D.random_store(first, rng, rng.choice([0.0, 0.0, 0.6])),
               "run_params": {}, "cap": 6000} for _ in range(max(4, n // 3))]
    res_a = [r for r in P.run_jobs(first, jobs_a, os.path.join(C.build_dir(PID), "replay_first_" + inst.name)) if "harness_error" not in r and r["outcome"] == "done"]
    if not res_a:
        raise C.MachineryError("no first job completed for the replay campaign on %s" % inst.name)
    jobs = []
    for i in range(n):
        a = res_a[i % len(res_a)]
        ex = executions_of(a)
        kind = rng.choice(["all", "all", "subset", "none"])
        if kind == "subset":
            ex = [x for x in ex if rng.random() < 0.6]
        elif kind == "none":
            ex = []
        store = {k: list(v) for k, v in a["final_store"].items()}
        if rng.random() < 0.6:
            # some of the states produced by the first job are gone
            for k in store:
                store[k] = [x for x in store[k] if rng.random() < rng.choice([0.3, 0.8])]
        rp = {}
        r = rng.random()
        if r < 0.3:
            rp["max_tries"] = str(rng.choice([2, 3, 3, 4]))
        if 0.2 < r < 0.5:
            rp["rerun_status"] = rng.choice(["fail", "fail,error", "fail,error,warn,skip", "error"])
        elif r > 0.85:
            rp["stop_status"] = rng.choice(["error", "fail", "warn"])
        jobs.append({"sched": {"seed": rng.randrange(1 << 30), "statuses": STAT, "weights": w}, "store": store, "run_params": rp, "cap": 6000,
                     # the fields of a results.json test entry that the plugin reads
                     "previous": [{"id": "%s-%s" % (x[3], x[2]), "name": x[2], "status": x[4], "time_elapsed": round(rng.uniform(1, 50), 2)} for x in ex],
                     "settings": {"prev": [{"t": x[0], "w": x[1], "s": x[4]} for x in ex]}})
    return jobs


def make_jobs(inst, rng, n):
    if inst.params.get("replay"):
        return make_replay_jobs(inst, rng, n)
    jobs = []
    for i in range(n):
        if i % 8 == 7:
            rp = dict(rng.choice(INVALID))
            jobs.append({"sched": {"seed": rng.randrange(1 << 30), "statuses": ["PASS"]}, "store": {}, "run_params": rp, "cap": 6000, "invalid": True})
            continue
        rp = {"max_tries": str(rng.choice([2, 3, 3, 4, 4, 0, 1]))}
        r = rng.random()
        common = [["pass"], ["fail"], ["fail", "error"], ["pass", "warn"], ["warn"], ["skip"]]
        if r < 0.35:
            rp["rerun_status"] = ",".join(rng.choice(common + [[s.lower() for s in rng.sample(STAT, rng.randint(1, 2))]]))
        elif r < 0.75:
            rp["stop_status"] = ",".join(rng.choice(common + [[s.lower() for s in rng.sample(STAT, rng.randint(1, 2))]]))
        w = [6, 2, 2, 1, 1, 1, 1]
        jobs.append({"sched": {"seed": rng.randrange(1 << 30), "statuses": STAT, "weights": w},
                     "store": D.random_store(inst, rng, rng.choice([0.0, 0.5, 1.0])), "run_params": rp, "cap": 6000})
    return jobs


def settings_of(job):
    return dict(job.get("settings", {}), norerunrule=bool(job.get("invalid")))


def signature(inst, res, f):
    d = f["detail"]
    if d[0].startswith("tries") or d[0] in ("own-result", "uid-reused"):
        t = d[1]
        return "%s %s" % (d[0], "creation-node" if inst.const["tests"][t]["objroot"] else ("setup" if inst.const["tests"][t]["sets"] else "leaf"))
    if d[0] == "uid-reused-pre-step":
        # the known finding F-C10-2 is the repetition of a pre-step that was not followed by a main step (its failure leaves no
        # result on the node); an identifier repeated although a main try was recorded in between is something else
        t, w = d[1], d[2]
        ev = res["events"]
        here = next((i for i, e in enumerate(ev) if e["i"] == f["event"] or e.get("i") == f.get("event")), None)
        cur = [e for e in ev if e["a"] == "prestart" and e.get("t") == t and e["w"] == w]
        kinds = set()
        seen = {}
        main_since = {}
        for e in ev:
            if e.get("t") != t or e["w"] != w:
                continue
            if e["a"] == "prestart":
                u = e.get("uid")
                if u in seen:
                    kinds.add("after-main-try" if main_since.get(u) else "after-pre-step-without-main-try")
                seen[u] = True
                main_since[u] = False
            elif e["a"] == "endrun":
                for u in main_since:
                    main_since[u] = True
        return "uid-reused-pre-step " + "+".join(sorted(kinds) or ["?"])
    return str(d[0])


def describe(inst, res, f):
    d = f["detail"]
    return "%s: %s (instance %s, run params %s, event %d)" % (d[0], [D.short(inst, x) if isinstance(x, str) and x in inst.const["tests"] else x for x in d[1:]],
                                                             inst.name, res["job"].get("run_params"), f["event"])


def post(inst, good, traces, v):
    for r in good:
        if r["job"].get("invalid") and not r["outcome"].startswith("error:ValueError"):
            v.violation("invalid-setting-not-rejected %s" % sorted(r["job"]["run_params"].items()),
                        "run with %s ended with outcome %s instead of a ValueError" % (r["job"]["run_params"], r["outcome"]),
                        {"instance": inst.name, "instance_params": inst.params, "job": r["job"]})


def run(tier, seed):
    quick = tier == "quick"
    rj = {"replay": "previous-job"}
    plan = [("tut1x1", None, 32), ("tut13x3", None, 56), ("guix2", None, 24), ("tut13x2", rj, 32)] if quick else \
           [("tut1x1", None, 400), ("tut13x2", None, 400), ("tut13x3", None, 300), ("guix2", None, 300), ("minx2", None, 200), ("tut13c", None, 200),
            ("tut13x2", rj, 300), ("tut1x1", rj, 150), ("guix2", rj, 150), ("tut13x3", rj, 150)]
    if not quick:
        # generated suites (random setup DAGs, vf/parse/gensuite.py)
        plan += [("gen:%d:%d" % (seed + 601 + i, 2 + i % 2), None, 150) for i in range(3)]
    return D.generic_run(PID, tier, seed, plan, make_jobs, signature, describe, explore_plan=D.explore_plan(tier, ['NoC10'], retries=True), settings_of=settings_of, post=post,
                         rule="randomized outcome sequences over 7 reportable statuses x max_tries {0,1,2,3} x rerun/stop subsets x initial pools; "
                              "invalid settings (-1, x, unknown status names) must raise; TLC validates tries rule, uid freshness, own results, verdict; "
                              "replay jobs: previous results of a complete first job x kept/removed states x retry settings, TLC validates the replay rule",
                         assumptions=["a replayed job is a complete earlier run of the same selection in the same environment model; its result file is "
                                      "all, part or none of the recorded results and its final pool is kept or partly removed"])


def replay(path):
    return D.replay(PID, path)
