"""C18 - the vm network model stays consistent and its address arithmetic is exact.

Part 1 (state machine): specs/vmnet/VMNet.tla models integrate_node / get_allocatable_address /
reattach_interface over a small address space; TLC checks the consistency invariants exhaustively.
TLC behaviours (transition cover of a tiny instance, -simulate behaviours of the larger ones) are
replayed on the real VMNetwork with stub vms; after each step the real registries are projected onto
the spec's variables and compared, error exits included.

Part 2 (arithmetic): specs/vmnet/NetArith.tla recomputes, in 16-bit limbs, every recorded call of
mask_bit (both directions), the network address derivation and translate_address made by the real
VMNetconfig on random 32-bit inputs (trace validation of call records).
"""
import ipaddress
import json
import os
import random
import time
from unittest import mock

from .. import common as C
from ..tlaval import tla

PID = "C18"


def as_map(x):
    """TLC prints functions over 1..n as tuples"""
    if isinstance(x, tuple):
        return {i + 1: v for i, v in enumerate(x)}
    return dict(x)


class Net:
    """a real VMNetwork over stub vms for one spec configuration"""

    def __init__(self, st, B, vms, nics, base):
        from virttest import utils_params
        self.B, self.base, self.vms, self.nics = B, base, vms, nics
        p = utils_params.Params()
        p["nics"] = " ".join(nics)
        p["mac"] = "00:00:00:00:00:00"
        for n in nics:
            pre = as_map(st["cfgPre"])[n] if not isinstance(st["cfgPre"], dict) else st["cfgPre"][n]
            p["netmask_" + n] = str(ipaddress.ip_network("0.0.0.0/%d" % (32 - B + pre)).netmask)
            lo, hi = st["cfgRange"][n]
            p["range_" + n] = "%d-%d" % (lo, hi)
            p["netdst_" + n] = "virbr_" + n
            p["role_" + n] = n
        for (vm, n), a in st["cfgIp"].items():
            p["ip_%s_%s" % (n, vm)] = str(ipaddress.IPv4Address(base + a))
        self.params = p
        self.mock_vms = {}
        self.env = mock.MagicMock(name="env")
        self.env.get_vm = mock.MagicMock(side_effect=lambda n: self.mock_vms.get(n))

        def create_vm(vm_type, target, vm_name, vm_params, bindir):
            m = mock.MagicMock(name=vm_name)
            m.name, m.params = vm_name, vm_params
            self.mock_vms[vm_name] = m
            return m

        self.env.create_vm = mock.MagicMock(side_effect=create_vm)
        self.net = None

    def build(self, k):
        """network of the first k vms through the real constructor; returns exception name or None"""
        from avocado_i2n.vmnet import VMNetwork
        self.mock_vms.clear()
        p = self.params.copy()
        p["vms"] = " ".join(self.vms[:k])
        try:
            self.net = VMNetwork(p, self.env)
            return None
        except Exception as ex:
            self.net = None
            return type(ex).__name__

    def project(self):
        net, base, B = self.net, self.base, self.B
        nets = {}
        problems = []
        for key, nc in net.netconfigs.items():
            n = int(ipaddress.IPv4Address(nc.net_ip)) - base
            if key != nc.net_ip:
                problems.append("netconfig registered under %s has net_ip %s" % (key, nc.net_ip))
            rng = nc.range
            offs = sorted(rng)
            free = [o for o in offs if rng[o] is False]
            members = {}
            for ipstr, iface in nc.interfaces.items():
                key2 = [k for k, v in net.interfaces.items() if v is iface]
                members[int(ipaddress.IPv4Address(ipstr)) - base] = tuple(key2[0].split(".")) if key2 else ("?", "?")
            nets[n] = {"pre": int(nc.mask_bit) - (32 - B), "lo": offs[0], "hi": offs[-1],
                       "next": free[0] if free else offs[-1] + 1, "members": members}
            # allocated offsets must be a prefix of the range (each handed out once, in order)
            taken = [o for o in offs if rng[o]]
            if taken != offs[:len(taken)]:
                problems.append("allocated offsets %s are not a prefix of the range" % taken)
        ip, ncof = {}, {}
        for key, iface in net.interfaces.items():
            k = tuple(key.split("."))
            ip[k] = int(ipaddress.IPv4Address(iface.ip)) - base
            ncof[k] = None if iface.netconfig is None else int(ipaddress.IPv4Address(iface.netconfig.net_ip)) - base
        return nets, ip, ncof, problems


def monitor(N, handed):
    """the property itself, evaluated on the real registries (independent of the spec's state):
    every interface registered in exactly one netconfig of the network - the one it points to, under its own
    address, whose subnet contains the address; no duplicate addresses; allocated addresses fresh and in range"""
    net, problems = N.net, []
    regs = list(net.netconfigs.values())
    seen = {}
    for key, iface in net.interfaces.items():
        holders = [nc for nc in regs if any(x is iface for x in nc.interfaces.values())]
        if len(holders) != 1:
            problems.append("interface %s (%s) is registered in %d network configurations" % (key, iface.ip, len(holders)))
            continue
        nc = holders[0]
        if iface.netconfig is not nc:
            problems.append("interface %s points to a netconfig it is not registered in" % key)
        if nc.interfaces.get(iface.ip) is not iface:
            problems.append("interface %s is not registered under its own address %s" % (key, iface.ip))
        if ipaddress.ip_address(iface.ip) not in ipaddress.ip_network("%s/%s" % (nc.net_ip, nc.netmask)):
            problems.append("address %s of %s is outside its netconfig %s/%s" % (iface.ip, key, nc.net_ip, nc.netmask))
        if iface.ip in seen:
            problems.append("address %s used by both %s and %s" % (iface.ip, seen[iface.ip], key))
        seen[iface.ip] = key
    for nc in regs:
        got = handed.get(id(nc), [])
        if len(set(got)) != len(got):
            problems.append("an address of %s was handed out twice: %s" % (nc.net_ip, got))
        lo = int(ipaddress.IPv4Address(nc.net_ip))
        allowed = {str(ipaddress.IPv4Address(lo + o)) for o in nc.range}
        if not set(got) <= allowed:
            problems.append("address outside the configured range handed out: %s" % sorted(set(got) - allowed))
    return problems


def spec_projection(st, built_vms, B):
    nets = {}
    for n, nc in as_map(st["nets"]).items():
        nets[n] = {"pre": nc["pre"], "lo": nc["lo"], "hi": nc["hi"], "next": nc["next"],
                   "members": {a: (str(i[0]), str(i[1])) for a, i in as_map(nc["members"]).items()}}
    ip = {(str(k[0]), str(k[1])): a for k, a in st["ip"].items() if str(k[0]) in built_vms}
    ncof = {(str(k[0]), str(k[1])): (None if x == 2 ** B else x) for k, x in st["ncOf"].items() if str(k[0]) in built_vms}
    return nets, ip, ncof


def replay(beh, B, vms, nics, rng, v, tag):
    """beh = list of spec states starting with Init; returns (#steps compared, reached ops?)"""
    st0 = beh[0]
    st0 = dict(st0)
    st0["cfgIp"] = {(str(k[0]), str(k[1])): a for k, a in st0["cfgIp"].items()}
    st0["cfgPre"] = {str(k): x for k, x in st0["cfgPre"].items()}
    st0["cfgRange"] = {str(k): x for k, x in st0["cfgRange"].items()}
    base = (rng.randrange(1, 220) << 24) | (rng.randrange(0, 256) << 16) | (rng.randrange(0, 256) << 8) | (rng.randrange(0, 256 >> B) << B)
    N = Net(st0, B, vms, nics, base)
    history, steps = [], 0
    cfg = {"ips": {"%s.%s" % k: a for k, a in st0["cfgIp"].items()}, "prefix": st0["cfgPre"], "range": st0["cfgRange"], "B": B,
           "base": str(ipaddress.IPv4Address(base))}

    def fail(kind, msg):
        v.violation("%s %s" % (kind, tag), msg, {"config": cfg, "history": history, "problem": msg})

    handed, diverged = {}, False

    def check_monitor(where):
        if N.net is None:
            return False
        problems = monitor(N, handed)
        if problems:
            fail("inconsistent-" + where, "; ".join(problems[:3]))
            return True
        return False

    for st in beh[1:]:
        last = st["last"]
        op = str(last["op"])
        spec_err = str(st["err"])
        exp = last.get("result")
        exp = "exhausted" if exp == 2 ** B else exp
        if op == "integrate":
            k = st["built"]
            history.append(["integrate", vms[k - 1]])
            got = N.build(k)
            if got not in (None, "IndexError"):
                fail("build-raises", "building the network of %s raised %s" % (vms[:k], got))
                return steps, diverged
            if check_monitor("after-build"):
                return steps, diverged
            if (got or "none") != spec_err:
                diverged = "build of %s: implementation %s, spec %s" % (vms[:k], got or "succeeds", spec_err)
            if got or spec_err != "none":
                return steps, diverged
        elif op == "allocate":
            n = last["net"]
            history.append(["allocate", n])
            nc = N.net.netconfigs.get(str(ipaddress.IPv4Address(base + n)))
            if nc is None:
                return steps, diverged or "netconfig %s does not exist" % n
            try:
                addr = nc.get_allocatable_address()
                handed.setdefault(id(nc), []).append(addr)
                res = int(ipaddress.IPv4Address(addr)) - base
            except IndexError:
                res = "exhausted"
                if len(set(handed.get(id(nc), []))) < len(nc.range) and not diverged and exp != "exhausted":
                    fail("allocate-exhausted-early", "exhaustion reported after %d of %d addresses" % (len(handed.get(id(nc), [])), len(nc.range)))
                    return steps, diverged
            except Exception as ex:
                fail("allocate-raises", "get_allocatable_address raised %s: %s" % (type(ex).__name__, ex))
                return steps, diverged
            if res != exp and not diverged:
                if exp == "exhausted":
                    fail("allocate-beyond-range", "address %s handed out although the range of net %s is exhausted" % (res, n))
                    return steps, diverged
                diverged = "allocate on net %s returned %s, spec %s" % (n, res, exp)
        elif op == "reattach":
            c, s = (str(last["client"][0]), str(last["client"][1])), (str(last["server"][0]), str(last["server"][1]))
            history.append(["reattach", ".".join(c), ".".join(s)])
            ref = N.net.interfaces["%s.%s" % s].netconfig
            try:
                N.net.reattach_interface(N.mock_vms[c[0]], N.mock_vms[s[0]], client_nic="role_" + c[1], server_nic="role_" + s[1])
                addr = N.net.interfaces["%s.%s" % c].ip
                handed.setdefault(id(ref), []).append(addr)
                res = int(ipaddress.IPv4Address(addr)) - base
            except IndexError:
                res = "exhausted"
            except Exception as ex:
                fail("reattach-raises", "reattach_interface raised %s: %s" % (type(ex).__name__, ex))
                return steps, diverged
            if res != exp and not diverged:
                if exp == "exhausted":
                    fail("reattach-beyond-range", "reattached with %s although the range is exhausted" % res)
                    return steps, diverged
                diverged = "reattach %s -> net of %s gave %s, spec %s" % (c, s, res, exp)
        steps += 1
        if check_monitor("after-" + op + ("-rejected" if spec_err != "none" else "")):
            return steps, diverged
        if not diverged:
            built_vms = set(vms[:st["built"]])
            e_nets, e_ip, e_nc = spec_projection(st, built_vms, B)
            g_nets, g_ip, g_nc, problems = N.project()
            if g_nets != e_nets:
                problems.append("netconfigs %s != spec %s" % (g_nets, e_nets))
            if g_ip != e_ip:
                problems.append("interface addresses %s != spec %s" % (g_ip, e_ip))
            if g_nc != e_nc:
                problems.append("interface->netconfig %s != spec %s" % (g_nc, e_nc))
            if problems:
                diverged = "; ".join(problems[:2])
        if spec_err != "none":
            return steps, diverged
    return steps, diverged


def write_cfg(path, B, prefixes, vms, nics, maxops):
    with open(path + ".tla", "w") as f:
        f.write("---- MODULE %s ----\nEXTENDS VMNet\nMCVMs == %s\nMCNics == %s\n====\n" % (os.path.basename(path), tla(list(vms)), tla(list(nics))))
    with open(path + ".cfg", "w") as f:
        f.write("SPECIFICATION Spec\nCONSTANTS\n B = %d\n Prefixes = %s\n VMs <- MCVMs\n Nics <- MCNics\n MaxOps = %d\n"
                % (B, tla(set(prefixes)), maxops))
        f.write("INVARIANT Consistent\nINVARIANT AllocationExact\nINVARIANT NetsWellFormed\nPROPERTY AllocatedFresh\nCHECK_DEADLOCK FALSE\n")


# ------------------------------------------------------------------ part 2: arithmetic call records

def limbs(x):
    return [x >> 16, x & 0xFFFF]


def arith_records(rng, n):
    from avocado_i2n.vmnet.netconfig import VMNetconfig
    recs = []
    for _ in range(n):
        pre = rng.choice([rng.randint(1, 30), rng.randint(8, 30), 16, 24])
        ipv = rng.getrandbits(32)
        nat = rng.getrandbits(32)
        nc = VMNetconfig()
        mask = int(ipaddress.ip_network("0.0.0.0/%d" % pre).netmask)
        nc.netmask = str(ipaddress.IPv4Address(mask))
        rec = {"pre": pre, "ip": limbs(ipv), "nat": limbs(nat)}
        # netmask -> mask_bit
        rec["mask_bit"] = int(nc.mask_bit)
        # network address derivation
        netip = nc._get_network_ip(str(ipaddress.IPv4Address(ipv)), nc.mask_bit)
        rec["net"] = limbs(int(ipaddress.IPv4Address(netip)))
        nc.net_ip = netip
        # mask_bit -> netmask (setter), on a fresh object knowing only the network address
        nc2 = VMNetconfig()
        nc2.net_ip = netip
        nc2.mask_bit = str(pre)
        rec["mask_from_bit"] = limbs(int(ipaddress.IPv4Address(nc2.netmask)))
        # translation of the host into the subnet of nat
        rec["translated"] = limbs(int(ipaddress.IPv4Address(nc.translate_address(str(ipaddress.IPv4Address(ipv)), str(ipaddress.IPv4Address(nat))))))
        recs.append(rec)
    return recs


def legacy_guard(work):
    """vacuity guard: a model in which reattach detaches before allocating must be refuted by TLC"""
    src = open(os.path.join(work, "VMNet.tla")).read()
    marker = "THEN /\\ err' = \"IndexError\" /\\ UNCHANGED <<nets, ip, ncOf>>"
    assert marker in src
    mutated = src.replace(marker, "THEN /\\ err' = \"IndexError\" /\\ nets' = [nets EXCEPT ![old].members = Without(@, ip[c])] /\\ UNCHANGED <<ip, ncOf>>")
    mutated = mutated.replace("MODULE VMNet ", "MODULE VMNetLegacy ")
    with open(os.path.join(work, "VMNetLegacy.tla"), "w") as f:
        f.write(mutated)
    with open(os.path.join(work, "MC_legacy.tla"), "w") as f:
        f.write('---- MODULE MC_legacy ----\nEXTENDS VMNetLegacy\nMCVMs == <<"vm1", "vm2">>\nMCNics == <<"b1">>\n====\n')
    with open(os.path.join(work, "MC_legacy.cfg"), "w") as f:
        f.write("SPECIFICATION Spec\nCONSTANTS\n B = 3\n Prefixes = {1, 2}\n VMs <- MCVMs\n Nics <- MCNics\n MaxOps = 2\nINVARIANT Consistent\nCHECK_DEADLOCK FALSE\n")
    r = C.run_tlc(work, "MC_legacy", "MC_legacy.cfg", timeout=600)
    if r.violated != "Consistent":
        raise C.MachineryError("vacuity guard: TLC did not refute the detach-before-allocate variant of Reattach")


def run(tier, seed):
    t0 = time.time()
    C.repo_python_setup()
    import unittest_importer  # noqa: F401
    work = C.build_dir(PID, wipe=True)
    C.stage_specs(work, os.path.join(C.SPECS, "vmnet"))
    v = C.Verdict(PID)
    rng = random.Random(seed)
    quick = tier == "quick"
    states = transitions = replayed = steps = 0
    instances, samples, divergences = [], [], []

    # (a) tiny instance: full state graph, transition cover replayed
    vms, nics = ["vm1", "vm2"], ["b1"]
    write_cfg(os.path.join(work, "MC_tiny"), 3, [1, 2], vms, nics, 2)
    dump = os.path.join(work, "graph_tiny")
    r = C.run_tlc(work, "MC_tiny", "MC_tiny.cfg", dump=dump, timeout=3000)
    if not r.ok:
        raise C.MachineryError("TLC reports a problem in the VMNet model itself (tiny): %s" % r.errors[:5])
    legacy_guard(work)
    states += r.distinct
    transitions += r.generated
    g = C.StateGraph(dump + ".dot")
    os.unlink(dump + ".dot")
    paths = g.cover_paths()
    for p in paths:
        beh = [g.states[p[0]]] + [g.states[sid] for _, sid in p[1:]]
        k, dv = replay(beh, 3, vms, nics, rng, v, "tiny")
        steps += k
        replayed += 1
        if dv:
            divergences.append(dv)
    instances.append({"instance": "tiny", "B": 3, "vms": vms, "nics": nics, "max_ops": 2, "distinct_states": r.distinct,
                      "edges": len(g.edges), "cover_paths": len(paths)})

    # (b) medium instance: exhaustive invariants by TLC, behaviours by simulation
    vms, nics = ["vm1", "vm2"], ["b1", "b2"]
    maxops = 1 if quick else 2
    write_cfg(os.path.join(work, "MC_medium"), 3, [1, 2], vms, nics, maxops)
    r = C.run_tlc(work, "MC_medium", "MC_medium.cfg", timeout=7000)
    if not r.ok:
        raise C.MachineryError("TLC reports a problem in the VMNet model itself (medium): %s" % r.errors[:5])
    states += r.distinct
    transitions += r.generated
    instances.append({"instance": "medium", "B": 3, "vms": vms, "nics": nics, "max_ops": maxops, "distinct_states": r.distinct})
    sims = [("MC_medium", 3, vms, nics, 300 if quick else 3000, 2 + maxops + 2)]
    vms3, nics3 = ["vm1", "vm2", "vm3"], ["b1"]
    write_cfg(os.path.join(work, "MC_large"), 4, [1, 2, 3], vms3, nics3, 6)
    sims.append(("MC_large", 4, vms3, nics3, 200 if quick else 3000, 12))
    for mod, B, svms, snics, num, depth in sims:
        rs, behs = C.simulate(work, mod, mod + ".cfg", num, depth, seed + 3, timeout=3000)
        if rs.violated:
            raise C.MachineryError("TLC simulation reports a problem in the VMNet model itself: %s" % rs.errors[:5])
        nops = 0
        for beh in behs:
            sts = [s for _, s in beh]
            k, dv = replay(sts, B, svms, snics, rng, v, mod)
            steps += k
            replayed += 1
            if dv:
                divergences.append(dv)
            nops += sum(1 for s in sts if str(s["last"]["op"]) in ("allocate", "reattach"))
            if len(samples) < 3 and len(sts) > 4 and str(sts[-1]["last"]["op"]) == "reattach":
                samples.append({"instance": mod, "config": {"ip": {"%s.%s" % (k[0], k[1]): a for k, a in sts[0]["cfgIp"].items()},
                                                             "prefix": C.tlaval.plain(sts[0]["cfgPre"]),
                                                             "range": C.tlaval.plain(sts[0]["cfgRange"])},
                                "operations": [C.tlaval.plain(s["last"]) for s in sts[1:]]})
        instances.append({"instance": mod + "-simulation", "behaviours": len(behs), "depth": depth, "allocate_reattach_ops": nops})

    # part 2: arithmetic call records validated by TLC in limb arithmetic
    nrec = 400 if quick else 4000
    recs = arith_records(rng, nrec)
    with open(os.path.join(work, "arith.json"), "w") as f:
        json.dump(recs, f)
    with open(os.path.join(work, "NetArith.cfg"), "w") as f:
        f.write("SPECIFICATION Spec\nINVARIANT RecordOK\nPOSTCONDITION AllConsumed\nCHECK_DEADLOCK FALSE\n")
    ra = C.run_tlc(work, "NetArith", "NetArith.cfg", workers=1, env={"TRACE_FILE": os.path.join(work, "arith.json")}, timeout=3000)
    if ra.violated == "RecordOK":
        tr = ra.trace()
        idx = tr[-1][1].get("i", 0) if tr else 0
        bad = recs[idx - 1] if 0 < idx <= len(recs) else None
        v.violation("arithmetic record", "address arithmetic of VMNetconfig disagrees with the limb model on %s" % bad, {"record": bad})
    elif not ra.ok:
        raise C.MachineryError("TLC failed on NetArith: %s" % ra.errors[:5])
    states += ra.distinct
    transitions += ra.generated
    instances.append({"instance": "NetArith call records", "records": nrec})
    samples.append({"arithmetic_record": recs[0]})

    rc = v.finish()
    for dv in sorted(set(divergences))[:5]:
        C.log("CONFORMANCE-DIVERGED (property monitors satisfied on the real state): %s" % dv)
    C.write_evidence(PID, tier, seed, "model_checking", {
        "conformance": "accepted" if not divergences else "diverged in %d behaviours, e.g. %s" % (len(divergences), divergences[0]),
        "states": states, "transitions": transitions, "traces_validated_against_impl": replayed + nrec,
        "samples": samples, "exhaustive": True, "implementation_steps_compared": steps, "instances": instances,
        "rule": "tiny instance: transition cover of the full TLC graph; medium: invariants exhaustively, behaviours by -simulate; large: "
                "-simulate only; each behaviour replayed on VMNetwork (constructor per integrate step, get_allocatable_address, "
                "reattach_interface) with all registries projected and compared after every step; arithmetic: TLC recomputes every "
                "recorded mask_bit/_get_network_ip/translate_address call in 16-bit limbs",
    }, ["statically configured addresses are pairwise distinct and lie outside the DHCP range of their network (the property itself "
        "requires allocation to hand out every address of the range) and subnets of different netconfigs do not overlap; other configurations are built but not operated on",
        "the proxy-ARP variant of reattach_interface deliberately shares an address and is outside the invariant",
        "vm objects are stubs as in the selftests"],
        time.time() - t0, len(v.violations))
    return rc
