"""Collect recorded parses (eager, repeated, lazy after a traversal) and validate them with TLC (GraphParse.tla)."""
import json
import os
import re
import time

from .. import common as C
from ..tlaval import parse as tlaparse
from . import graphsnap as S

VM_STRS = {"vm1": "only CentOS\n", "vm2": "only Win10\n", "vm3": "only Ubuntu\n"}
VM_VARIANT = {"vm1": "CentOS", "vm2": "Win10", "vm3": "Ubuntu"}

# name: (flat restriction, nets)
SELECTIONS = {
    "tut13": ("normal..tutorial1,normal..tutorial3", "net1 net2"),
    "gui3": ("leaves..tutorial_gui", "net1 net2 net3"),
    "get2": ("leaves..tutorial_get", "net1 net2"),
    "minc": ("minimal..tutorial1,minimal..tutorial2", "cluster1.net6 cluster2.net6"),
    "tut1": ("normal..tutorial1", "net1"),
    "tut2": ("normal..tutorial2", "net1 net4"),
    "leaves2": ("leaves", "net1 net2"),
    "normal3": ("normal", "net1 net2 net3"),
    "tut3dot": ("normal.nongui.tutorial3", "net2 net3"),
    "gui4": ("leaves..tutorial_gui", "net1 net2 net3 net4"),
    # other vm variants: both vms of tutorial3 then need a setup test of the same name
    # the run's vm restrictions given by variant-set name: textually contained in tutorial_gui's own "only_vm1 = qemu_kvm_centos, qemu_kvm_fedora"
    "gui2q": ("leaves..tutorial_gui", "net1 net2", {"vm1": "qemu_kvm_centos", "vm2": "qemu_kvm_windows_10", "vm3": "qemu_kvm_ubuntu"}),
    # tests of two test sets, the dependant first: the producer is composed as setup before it is unrolled as a selected test
    "mixsets": ("leaves..tutorial_get.explicit_noop,normal..tutorial_gui.client_noop", "net1 net2"),
    # local and remote workers in one run
    "tut1mix": ("normal..tutorial1", "cluster1.net6 net1 net2"),
    "tut3fed": ("normal..tutorial3", "net1 net2", {"vm1": "Fedora", "vm2": "Win7", "vm3": "Ubuntu"}),
}


def eager_restr(restr):
    parts = restr.split(",")
    if all(".." in p for p in parts):
        first = {p.split("..")[0] for p in parts}
        if len(first) == 1:
            return "only %s\nonly %s\n" % (first.pop(), ",".join(p.split("..", 1)[1] for p in parts))
    return "only %s\n" % restr


def vm_strs_of(name):
    sel = SELECTIONS[name]
    variant = sel[2] if len(sel) > 2 else VM_VARIANT
    return {k: "only %s\n" % v for k, v in variant.items()}, variant


def parse_eager(restr, nets, params=None, vm_strs=None):
    from avocado_i2n.cartgraph import TestGraph
    rec = S.ParseRecorder()
    rec.install()
    try:
        p = dict(params or {})
        p["nets"] = nets
        g = TestGraph.parse_object_trees(None, eager_restr(restr), "", dict(vm_strs or VM_STRS), p)
    finally:
        rec.uninstall()
    return g, rec


def leaf_vms(repo, restr):
    """vms of each selected leaf, read from the configuration alone"""
    from virttest import cartesian_config
    out = []
    for part in restr.split(","):
        p = cartesian_config.Parser()
        p.parse_file(os.path.join(repo, "tp_folder", "configs", "sets.cfg"))
        p.parse_string("only %s\n" % part)
        for d in p.get_dicts():
            out.append((d["name"], d.get("vms", "").split()))
    return out


def expected_edges(repo, restr, variant=None):
    r = S.Resolver(repo, variant or VM_VARIANT)
    seen, edges = set(), set()
    for name, vms in leaf_vms(repo, restr):
        if not vms:
            continue
        r.resolve(name, vms, seen, edges)
    return sorted(edges)


def validate(work, graphs, name="MC_Graph"):
    C.stage_specs(work, os.path.join(C.SPECS, "parse"))
    path = os.path.join(work, name + "_graphs.json")
    with open(path, "w") as f:
        json.dump(graphs, f)
    with open(os.path.join(work, name + ".tla"), "w") as f:
        f.write("---- MODULE %s ----\nEXTENDS GraphParse\n====\n" % name)
    with open(os.path.join(work, name + ".cfg"), "w") as f:
        f.write("SPECIFICATION Spec\nPOSTCONDITION Accepted\nCHECK_DEADLOCK FALSE\n")
    r = C.run_tlc(work, name, name + ".cfg", workers=1, env={"TRACE_FILE": path}, timeout=6000, heap="8g", stack="256m")
    m = re.search(r'<<\s*"MONITOR-FAILURES",\s*(.*?)\s*>>\s*<<\s*"CONSUMED"', r.out, re.S)
    if not m:
        raise C.MachineryError("GraphParse produced no verdict: %s" % "\n".join(r.out.splitlines()[-25:]))
    fails = [{"prop": str(f[0]), "graph": int(f[1]) - 1, "detail": C.tlaval.plain(f[2])} for f in tlaparse(m.group(1))]
    m2 = re.search(r'<<\s*"CONSUMED",\s*(\d+),\s*(\d+)\s*>>', r.out)
    if not (m2 and m2.group(1) == m2.group(2)):
        raise C.MachineryError("GraphParse did not consume all events: %s %s" % (m2.groups() if m2 else None, r.errors[:3]))
    return r, fails
