"""Generated Cartesian suites: the shipped suite's base (object creation, customize, connect, vm/net definitions) with a
randomly generated set of further setup tests and product tests on top.

The generator knows the dependency DAG it declares (`truth`), so the independent resolver (graphsnap.Resolver) can
itself be checked against it before it is used as the oracle of GraphParse.AsDeclared.

  setup tests    internal.automated.gs<k>:  get_images = <parent>, get_state_images = <state>, set_state_images = gs<k>
                 or a running-vm state:     get_images = <parent>, ..., set_state_vms = gs<k>
  product tests  gl<k>: vms = subset of vm1..vm3; per vm either an image state or a running-vm state of a setup test;
                 optionally two variants that set a state of one vm (a multi-producer dependency for another product
                 test that names the group -> that dependant is cloned)
"""
import os
import shutil

BASE_IMAGE_SETUPS = ["customize", "connect"]        # image states of the shipped suite that generated setup may build on


class Suite:
    def __init__(self, root, truth, leaves, setups, text):
        self.root, self.truth, self.leaves, self.setups, self.text = root, truth, leaves, setups, text

    @property
    def home(self):
        return os.path.join(self.root, "home")

    @property
    def tp(self):
        return os.path.join(self.root, "tp_folder")


def generate(rng, n_setups=None, n_leaves=None, same_names=False, subset_producers=False, removable=False):
    """subset_producers: a multi-producer group is only depended on by tests that use all of the group's vms"""
    """returns (groups text to append, truth) - truth: dict test -> {vm: (kind, parent test, state)}; leaves: name -> vms"""
    n_setups = rng.randint(2, 6) if n_setups is None else n_setups
    n_leaves = rng.randint(2, 5) if n_leaves is None else n_leaves
    image_setups = list(BASE_IMAGE_SETUPS)          # names usable as get_images with an image state of the same name
    vm_setups = ["on_customize"]                    # names usable as get_vms with a vm state of the same name
    setups = {}
    lines_setup = []
    for k in range(1, n_setups + 1):
        name = "gs%d" % k
        parent = rng.choice(image_setups)
        kind = "vms" if rng.random() < 0.25 else "images"
        setups[name] = {"parent": parent, "kind": kind}
        lines_setup += ["                    - %s:" % name,
                        "                        get_images = %s" % parent,
                        "                        get_state_images = %s" % parent,
                        "                        set_state_%s = %s" % (kind, name),
                        "                        type = shared_generated_setup"]
        if removable and rng.random() < 0.35:
            # the state is removed after use (at any depth of the setup DAG)
            lines_setup += ["                        unset_mode_%s = fi" % kind]
            setups[name]["removable"] = True
        (vm_setups if kind == "vms" else image_setups).append(name)
    leaves = {}
    producers = {}        # leaf group with two state-setting variants: name -> vm
    lines_leaf = []
    for k in range(1, n_leaves + 1):
        name = "gl%d" % k
        vms = sorted(rng.sample(["vm1", "vm2", "vm3"], rng.choice([1, 1, 2, 2, 3])))
        decl = {}
        lines = ["    - %s:" % name, "        vms = %s" % " ".join(vms), "        type = generated_leaf_%d" % k]
        for vm in vms:
            r = rng.random()
            usable = sorted(g for g, (v, gvms) in producers.items() if v == vm and (not subset_producers or set(gvms) <= set(vms)))
            # (at most one multi-producer dependency per test, as in the shipped suite: cloning over two objects at once is
            # not something the parser claims to support - it ends in "Detected stateless dependency")
            if usable and r < 0.3 and not any(d[2] is None for d in decl.values()):
                grp = rng.choice(usable)
                decl[vm] = ("images", grp, None)            # every state-setting variant of the group: dependant is cloned
                lines += ["        get_images_%s = %s" % (vm, grp)]
            elif r < 0.5 and vm_setups:
                s = rng.choice(vm_setups)
                decl[vm] = ("vms", s, s)
                lines += ["        get_vms_%s = %s" % (vm, s), "        get_state_vms_%s = %s" % (vm, s)]
            else:
                s = rng.choice(image_setups)
                decl[vm] = ("images", s, s)
                lines += ["        get_images_%s = %s" % (vm, s), "        get_state_images_%s = %s" % (vm, s)]
        multi = [vm for vm in vms if decl[vm][0] == "images" and decl[vm][2]]
        if multi and rng.random() < 0.35 and not any(d[2] is None for d in decl.values()):
            vm = rng.choice(multi)
            producers[name] = (vm, vms)
            # a state named after the test producing it (as the shipped setup tests do) or not
            sa, sb = (name + ".va", name + ".vb") if same_names else ("s%da" % k, "s%db" % k)
            rm = ["                unset_mode_images_%s = fi" % vm] if removable and rng.random() < 0.5 else []
            lines += ["        variants:",
                      "            - va:", "                set_state_images_%s = %s" % (vm, sa)] + rm + [
                      "            - vb:", "                set_state_images_%s = %s" % (vm, sb)]
            leaves[name + ".va"] = (vms, decl, {vm: sa})
            leaves[name + ".vb"] = (vms, decl, {vm: sb})
        else:
            leaves[name] = (vms, decl, {})
        lines_leaf += lines
    return lines_setup, lines_leaf, setups, leaves


EXTRA_VM_PRODUCER = (
    # a two-producer group on vm1..vm3 and a dependant that uses vm2 and vm3 only
    ["    - gl3:", "        vms = vm1 vm2 vm3", "        type = generated_leaf_3",
     "        get_vms_vm1 = on_customize", "        get_state_vms_vm1 = on_customize",
     "        get_images_vm2 = connect", "        get_state_images_vm2 = connect",
     "        get_images_vm3 = customize", "        get_state_images_vm3 = customize",
     "        variants:", "            - va:", "                set_state_images_vm3 = s3a", "            - vb:", "                set_state_images_vm3 = s3b",
     "    - gl5:", "        vms = vm2 vm3", "        type = generated_leaf_5",
     "        get_images_vm2 = customize", "        get_state_images_vm2 = customize", "        get_images_vm3 = gl3"],
    {"gl3.va": (["vm1", "vm2", "vm3"], {"vm1": ("vms", "on_customize", "on_customize"), "vm2": ("images", "connect", "connect"), "vm3": ("images", "customize", "customize")}, {"vm3": "s3a"}),
     "gl3.vb": (["vm1", "vm2", "vm3"], {"vm1": ("vms", "on_customize", "on_customize"), "vm2": ("images", "connect", "connect"), "vm3": ("images", "customize", "customize")}, {"vm3": "s3b"}),
     "gl5": (["vm2", "vm3"], {"vm2": ("images", "customize", "customize"), "vm3": ("images", "gl3", None)}, {})})


STATE_NAMED_AFTER_TEST = (
    # product-test variants whose states carry the test's own name: the clone of a dependant is then named `gl2.gl1.va` and the
    # name-based lookup of the parents `gl1` of another dependant also finds it
    ["    - gl1:", "        vms = vm2 vm3", "        type = generated_leaf_1",
     "        get_images_vm2 = customize", "        get_state_images_vm2 = customize",
     "        get_images_vm3 = customize", "        get_state_images_vm3 = customize",
     "        variants:", "            - va:", "                set_state_images_vm2 = gl1.va", "            - vb:", "                set_state_images_vm2 = gl1.vb",
     "    - gl2:", "        vms = vm2 vm3", "        type = generated_leaf_2", "        get_images_vm2 = gl1",
     "        get_images_vm3 = customize", "        get_state_images_vm3 = customize",
     "    - gl3:", "        vms = vm2", "        type = generated_leaf_3", "        get_images_vm2 = gl1"],
    {"gl1.va": (["vm2", "vm3"], {"vm2": ("images", "customize", "customize"), "vm3": ("images", "customize", "customize")}, {"vm2": "gl1.va"}),
     "gl1.vb": (["vm2", "vm3"], {"vm2": ("images", "customize", "customize"), "vm3": ("images", "customize", "customize")}, {"vm2": "gl1.vb"}),
     "gl2": (["vm2", "vm3"], {"vm2": ("images", "gl1", None), "vm3": ("images", "customize", "customize")}, {}),
     "gl3": (["vm2"], {"vm2": ("images", "gl1", None)}, {})})


def write(root, rng, fixed=None, **kw):
    """materialise a generated suite under root (tp_folder copy + own HOME); fixed = (leaf lines, leaves) instead of a random draw"""
    from .. import common as C
    if os.path.isdir(root):
        shutil.rmtree(root)
    os.makedirs(os.path.join(root, "home"))
    tp = os.path.join(root, "tp_folder")
    os.makedirs(tp)
    shutil.copytree(os.path.join(C.REPO, "tp_folder", "configs"), os.path.join(tp, "configs"))
    for sub in ("controls", "data"):
        src = os.path.join(C.REPO, "tp_folder", sub)
        if os.path.isdir(src):
            os.symlink(src, os.path.join(tp, sub))
    if fixed is not None:
        lines_setup, setups = [], {}
        lines_leaf, leaves = list(fixed[0]), dict(fixed[1])
    else:
        lines_setup, lines_leaf, setups, leaves = generate(rng, **kw)
    path = os.path.join(tp, "configs", "groups.cfg")
    text = open(path).read().splitlines()
    # generated setup tests: siblings of `connect` under internal.automated
    at = next(i for i, l in enumerate(text) if l.strip() == "- linux_virtuser:")
    text[at:at] = lines_setup
    # generated product tests replace the shipped product tests
    cut = next(i for i, l in enumerate(text) if l.startswith("    - quicktest:"))
    text = text[:cut] + lines_leaf
    with open(path, "w") as f:
        f.write("\n".join(text) + "\n")
    # test sets: only the reserved ones (the shipped refinements name shipped product tests)
    with open(os.path.join(tp, "configs", "sets.cfg"), "w") as f:
        f.write("include groups.cfg\nvariants:\n    - @all:\n    - nonleaves:\n        only internal, original\n    - leaves:\n        no internal, original\n")
    ow = os.path.join(tp, "configs", "sets-overwrite.cfg")
    s = open(ow).read().replace("default_only = normal", "default_only = leaves")
    with open(ow, "w") as f:
        f.write(s)
    return Suite(root, None, leaves, setups, "\n".join(lines_setup + lines_leaf))


_saved = []


def activate(suite):
    """point the imported avocado_i2n (this process and the children it forks) at the generated suite"""
    from avocado.core.settings import settings
    from avocado_i2n import params_parser as param
    _saved.append((os.environ.get("HOME"), param.custom_configs_dir, settings.as_dict))
    os.environ["HOME"] = suite.home
    param.custom_configs_dir = lambda: os.path.join(suite.tp, "configs")
    orig = settings.as_dict

    def as_dict(*a, **k):
        d = orig(*a, **k)
        d["i2n.common.suite_path"] = suite.tp
        return d
    settings.as_dict = as_dict
    # first use generates the overwrite files under the suite's own HOME
    param.tests_ovrwrt_file()
    param.vms_ovrwrt_file()


def deactivate():
    from avocado.core.settings import settings
    from avocado_i2n import params_parser as param
    home, ccd, asd = _saved.pop()
    if home is not None:
        os.environ["HOME"] = home
    param.custom_configs_dir = ccd
    settings.as_dict = asd


class active:
    """with active(suite): ... - no-op for suite None"""

    def __init__(self, suite):
        self.suite = suite

    def __enter__(self):
        if self.suite is not None:
            activate(self.suite)
        return self.suite

    def __exit__(self, *a):
        if self.suite is not None:
            deactivate()
        return False


def declared_edges(suite, vm_variant=None):
    """class-level edges of the generated part, straight from what the generator declared:
    {(child class, parent class or group, object key)}; a group parent (clone case) is given as '<group>.*'"""
    out = set()
    for name, s in suite.setups.items():
        for vm in ("vm1", "vm2", "vm3"):
            out.add(("internal.automated.%s@%s" % (name, vm), s["parent"], "images_image1_%s" % vm))
    for name, (vms, decl, sets) in suite.leaves.items():
        for vm, (kind, parent, state) in decl.items():
            okey = "images_image1_%s" % vm if kind == "images" else "vms_%s" % vm
            out.add(("%s@%s" % (name, ".".join(vms)), parent if state else parent + ".*", okey))
    return out
