"""C06 / C07 / C09 drivers on top of vf/parse/run.py"""
import random
import time

from .. import common as C
from . import run as R
from . import graphsnap as S


def plan(tier):
    if tier == "quick":
        return ["tut13", "gui3", "get2", "tut3fed"]
    return ["tut3fed", "tut13", "gui3", "get2", "minc", "tut1", "tut2", "tut3dot", "gui4", "leaves2", "normal3"]


def eager_graph(name, with_expected=False, reference=None):
    restr, nets = R.SELECTIONS[name][:2]
    vm_strs, variant = R.vm_strs_of(name)
    t0 = time.time()
    g, rec = R.parse_eager(restr, nets, vm_strs=vm_strs)
    snap = S.snapshot(g, rec)
    snap["unexpanded"] = []
    snap["label"] = "%s eager (%s on %s)" % (name, restr, nets)
    if with_expected:
        snap["expected"] = [list(e) for e in R.expected_edges(C.REPO, restr, variant)]
        snap["hasexpected"] = True
    if reference is not None:
        snap["reference"] = [list(e) for e in reference]
        snap["hasreference"] = True
    snap["parse_s"] = round(time.time() - t0, 1)
    return snap


def lazy_graphs(name, seeds, work):
    """real lazy traversals (parse on demand) with the parse recorder installed; returns snapshots after the traversal"""
    from ..sched import pool as P
    restr, nets = R.SELECTIONS[name][:2]
    rec = S.ParseRecorder()
    rec.install()
    try:
        inst = P.Instance("lazy_" + name, restr, nets, {"test_timeout": 100}, lazy=True)
        inst.prepare()
        inst.parse_rec = rec
        jobs = [{"sched": {"seed": s, "statuses": ["PASS", "FAIL"], "weights": [6, 1]}, "store": {}, "snapshot": True, "cap": 20000} for s in seeds]
        res = P.run_jobs(inst, jobs, work + "/lazy_" + name)
    finally:
        rec.uninstall()
    snaps = []
    for r in res:
        if "snapshot" in r and r["outcome"] == "done":
            sn = r["snapshot"]
            sn["label"] = "%s lazy after traversal seed %s" % (name, r["job"]["sched"]["seed"])
            sn["eventscomplete"] = True
            sn["lazy"] = True
            sn["excluded"] = list(getattr(inst, "incompatible", []))
            snaps.append(sn)
    return snaps


def generic(pid, tier, seed, props, build, rule, assumptions):
    t0 = time.time()
    C.repo_python_setup()
    import unittest_importer  # noqa: F401
    work = C.build_dir(pid, wipe=True)
    v = C.Verdict(pid)
    graphs = build(tier, random.Random(seed), work)
    r, fails = R.validate(work, graphs)
    for f in fails:
        if f["prop"] not in props:
            continue
        g = graphs[f["graph"]]
        v.violation("%s" % f["detail"][0], "%s: %s" % (g["label"], str(f["detail"])[:400]), {"graph": g["label"], "failure": f})
    rc = v.finish()
    samples = [{"graph": g["label"], "nodes": len(g["nodes"]), "edges": len(g["setup"]), "events": len(g["events"]),
                "declared_edges": len(g.get("expected", []))} for g in graphs[:6]]
    C.write_evidence(pid, tier, seed, "model_checking", {
        "states": r.distinct, "transitions": r.generated, "traces_validated_against_impl": len(graphs), "samples": samples,
        "graphs": [g["label"] for g in graphs], "parse_events_replayed": sum(len(g["events"]) for g in graphs), "rule": rule},
        assumptions, time.time() - t0, len(v.violations))
    return rc
