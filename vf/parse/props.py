"""C06 / C07 / C09 drivers on top of vf/parse/run.py"""
import random
import time

from .. import common as C
from . import run as R
from . import graphsnap as S


def plan(tier):
    if tier == "quick":
        return ["tut13", "gui3", "get2", "tut3fed"]
    return ["tut3fed", "tut13", "gui3", "get2", "minc", "tut1", "tut2", "tut3dot", "gui4", "leaves2", "normal3"]


def eager_graph(name, with_expected=False, reference=None):
    restr, nets = R.SELECTIONS[name][:2]
    vm_strs, variant = R.vm_strs_of(name)
    t0 = time.time()
    g, rec = R.parse_eager(restr, nets, vm_strs=vm_strs)
    snap = S.snapshot(g, rec)
    snap["unexpanded"] = []
    snap["label"] = "%s eager (%s on %s)" % (name, restr, nets)
    if with_expected:
        snap["expected"] = [list(e) for e in R.expected_edges(C.REPO, restr, variant)]
        snap["hasexpected"] = True
    if reference is not None:
        snap["reference"] = [list(e) for e in reference]
        snap["hasreference"] = True
    snap["parse_s"] = round(time.time() - t0, 1)
    return snap


def _eager_job(args):
    restr, nets, with_expected = args
    C.repo_python_setup()
    import unittest_importer  # noqa: F401
    g, rec = R.parse_eager(restr, nets)
    snap = S.snapshot(g, rec)
    snap["label"] = "pair eager (%s on %s)" % (restr, nets)
    if with_expected:
        snap["expected"] = [list(e) for e in R.expected_edges(C.REPO, restr)]
        snap["hasexpected"] = True
    return snap


def leaf_names():
    """all leaf test variants of the suite (short restriction form), read from the configuration alone"""
    return [n for n, _ in R.leaf_vms(C.REPO, "leaves")]


def pair_graphs(rng, n, with_expected=False, nets="net1"):
    """eager parses of selections made of two leaf tests: the order and partial overlap of their setup matters for the
    get-or-parse of parents (one producer of a multi-producer dependency already parsed, shared setup, clones)"""
    from ..props.c15 import fork_map
    leaves = leaf_names()
    fixed = [("leaves.tutorial_get.explicit_noop", "leaves.tutorial_get.implicit_both"),
             ("leaves.tutorial_get.implicit_both", "leaves.tutorial_finale"),
             ("leaves.tutorial_gui.client_clicked", "leaves.tutorial_get.implicit_both"),
             ("leaves.quicktest.tutorial1", "leaves.tutorial3.no_remote")]
    pairs = [p for p in fixed if p[0] in leaves and p[1] in leaves]
    allpairs = [(a, b) for i, a in enumerate(leaves) for b in leaves[i + 1:]]
    rng.shuffle(allpairs)
    pairs += allpairs[:max(0, n - len(pairs))]
    items = [("%s,%s" % (a.replace(".", "..", 1), b.replace(".", "..", 1)), nets, with_expected) for a, b in pairs]
    out = []
    for it, snap in zip(items, fork_map(_eager_job, items)):
        if "harness_error" in snap:
            raise C.MachineryError("parse of %s failed in the harness: %s" % (it[0], snap["harness_error"]))
        out.append(snap)
    return out


def lazy_graphs(name, seeds, work):
    """real lazy traversals (parse on demand) with the parse recorder installed; returns snapshots after the traversal"""
    from ..sched import pool as P
    restr, nets = R.SELECTIONS[name][:2]
    rec = S.ParseRecorder()
    rec.install()
    try:
        inst = P.Instance("lazy_" + name, restr, nets, {"test_timeout": 100}, lazy=True)
        inst.prepare()
        inst.parse_rec = rec
        jobs = [{"sched": {"seed": s, "statuses": ["PASS", "FAIL"], "weights": [6, 1]}, "store": {}, "snapshot": True, "cap": 20000} for s in seeds]
        res = P.run_jobs(inst, jobs, work + "/lazy_" + name)
    finally:
        rec.uninstall()
    snaps = []
    for r in res:
        if "snapshot" in r and r["outcome"] == "done":
            sn = r["snapshot"]
            sn["label"] = "%s lazy after traversal seed %s" % (name, r["job"]["sched"]["seed"])
            sn["eventscomplete"] = True
            sn["lazy"] = True
            sn["excluded"] = list(getattr(inst, "incompatible", []))
            snaps.append(sn)
    return snaps


def generic(pid, tier, seed, props, build, rule, assumptions):
    t0 = time.time()
    C.repo_python_setup()
    import unittest_importer  # noqa: F401
    work = C.build_dir(pid, wipe=True)
    v = C.Verdict(pid)
    graphs = build(tier, random.Random(seed), work)
    r, fails = R.validate(work, graphs)
    for f in fails:
        if f["prop"] not in props:
            continue
        g = graphs[f["graph"]]
        v.violation("%s" % f["detail"][0], "%s: %s" % (g["label"], str(f["detail"])[:400]), {"graph": g["label"], "failure": f})
    rc = v.finish()
    samples = [{"graph": g["label"], "nodes": len(g["nodes"]), "edges": len(g["setup"]), "events": len(g["events"]),
                "declared_edges": len(g.get("expected", []))} for g in graphs[:6]]
    C.write_evidence(pid, tier, seed, "model_checking", {
        "states": r.distinct, "transitions": r.generated, "traces_validated_against_impl": len(graphs), "samples": samples,
        "graphs": [g["label"] for g in graphs], "parse_events_replayed": sum(len(g["events"]) for g in graphs), "rule": rule},
        assumptions, time.time() - t0, len(v.violations))
    return rc
