"""C06 / C07 / C09 drivers on top of vf/parse/run.py"""
import random
import time

from .. import common as C
from . import run as R
from . import graphsnap as S


def plan(tier):
    if tier == "quick":
        return ["tut13", "gui3", "get2", "tut3fed"]
    return ["tut3fed", "tut13", "gui3", "get2", "minc", "tut1", "tut2", "tut3dot", "gui4", "leaves2", "normal3"]


def eager_graph(name, with_expected=False, reference=None):
    restr, nets = R.SELECTIONS[name][:2]
    vm_strs, variant = R.vm_strs_of(name)
    t0 = time.time()
    g, rec = R.parse_eager(restr, nets, vm_strs=vm_strs)
    snap = S.snapshot(g, rec)
    snap["unexpanded"] = []
    snap["label"] = "%s eager (%s on %s)" % (name, restr, nets)
    if with_expected:
        snap["expected"] = [list(e) for e in R.expected_edges(C.REPO, restr, variant)]
        snap["hasexpected"] = True
    if reference is not None:
        snap["reference"] = [list(e) for e in reference]
        snap["hasreference"] = True
    snap["parse_s"] = round(time.time() - t0, 1)
    return snap


def _eager_job(args):
    restr, nets, with_expected = args
    C.repo_python_setup()
    import unittest_importer  # noqa: F401
    g, rec = R.parse_eager(restr, nets)
    snap = S.snapshot(g, rec)
    snap["label"] = "pair eager (%s on %s)" % (restr, nets)
    if with_expected:
        snap["expected"] = [list(e) for e in R.expected_edges(C.REPO, restr)]
        snap["hasexpected"] = True
    return snap


def leaf_names():
    """all leaf test variants of the suite (short restriction form), read from the configuration alone"""
    return [n for n, _ in R.leaf_vms(C.REPO, "leaves")]


def pair_graphs(rng, n, with_expected=False, nets="net1"):
    """eager parses of selections made of two leaf tests: the order and partial overlap of their setup matters for the
    get-or-parse of parents (one producer of a multi-producer dependency already parsed, shared setup, clones)"""
    from ..props.c15 import fork_map
    leaves = leaf_names()
    fixed = [("leaves.tutorial_get.explicit_noop", "leaves.tutorial_get.implicit_both"),
             ("leaves.tutorial_get.implicit_both", "leaves.tutorial_finale"),
             ("leaves.tutorial_gui.client_clicked", "leaves.tutorial_get.implicit_both"),
             ("leaves.quicktest.tutorial1", "leaves.tutorial3.no_remote")]
    pairs = [p for p in fixed if p[0] in leaves and p[1] in leaves]
    allpairs = [(a, b) for i, a in enumerate(leaves) for b in leaves[i + 1:]]
    rng.shuffle(allpairs)
    pairs += allpairs[:max(0, n - len(pairs))]
    items = [("%s,%s" % (a.replace(".", "..", 1), b.replace(".", "..", 1)), nets, with_expected) for a, b in pairs]
    out = []
    for it, snap in zip(items, fork_map(_eager_job, items)):
        if "harness_error" in snap:
            raise C.MachineryError("parse of %s failed in the harness: %s" % (it[0], snap["harness_error"]))
        out.append(snap)
    return out


def lazy_graphs(name, seeds, work):
    """real lazy traversals (parse on demand) with the parse recorder installed; returns snapshots after the traversal"""
    from ..sched import pool as P
    restr, nets = R.SELECTIONS[name][:2]
    vm_strs, _ = R.vm_strs_of(name)
    rec = S.ParseRecorder()
    rec.install()
    try:
        inst = P.Instance("lazy_" + name, restr, nets, {"test_timeout": 100}, lazy=True, vm_strs=vm_strs)
        inst.prepare()
        inst.parse_rec = rec
        jobs = [{"sched": {"seed": s, "statuses": ["PASS", "FAIL"], "weights": [6, 1]}, "store": {}, "snapshot": True, "cap": 20000} for s in seeds]
        res = P.run_jobs(inst, jobs, work + "/lazy_" + name)
    finally:
        rec.uninstall()
    snaps = []
    for r in res:
        if "snapshot" in r and r["outcome"] == "done":
            sn = r["snapshot"]
            sn["label"] = "%s lazy after traversal seed %s" % (name, r["job"]["sched"]["seed"])
            sn["eventscomplete"] = True
            sn["lazy"] = True
            sn["excluded"] = list(getattr(inst, "incompatible", []))
            snaps.append(sn)
    return snaps


def generic(pid, tier, seed, props, build, rule, assumptions):
    t0 = time.time()
    C.repo_python_setup()
    import unittest_importer  # noqa: F401
    work = C.build_dir(pid, wipe=True)
    v = C.Verdict(pid)
    del PARSE_ERRORS[:]
    graphs = build(tier, random.Random(seed), work)
    for pe in PARSE_ERRORS:
        if pid == "C06":
            v.violation("parse-raises %s%s" % ("same-named-states " if SAME_NAME_MARK in pe["label"] else "", pe["parse_error"]), "%s: the parse of a valid generated configuration raised %s" % (pe["label"], pe["detail"][:300]),
                        {"generated_suite_seed": pe["seed"], "nets": pe["nets"], "declared": pe["declared"], "error": pe["detail"]})
        else:
            C.log("generated suite skipped (its parse raised; reported by C06): %s %s" % (pe["label"], pe["parse_error"]))
    r, fails = R.validate(work, graphs)
    for f in fails:
        if f["prop"] not in props:
            continue
        g = graphs[f["graph"]]
        sig = "%s" % f["detail"][0]
        if EXTRA_VM_MARK in g["label"] and g.get("lazy"):
            sig = "lazy-producer-extra-vm " + sig
        v.violation(sig, "%s: %s" % (g["label"], str(f["detail"])[:400]), {"graph": g["label"], "failure": f, "declared": g.get("declared")})
    rc = v.finish()
    samples = [{"graph": g["label"], "nodes": len(g["nodes"]), "edges": len(g["setup"]), "events": len(g["events"]),
                "declared_edges": len(g.get("expected", []))} for g in graphs[:6]]
    C.write_evidence(pid, tier, seed, "model_checking", {
        "states": r.distinct, "transitions": r.generated, "traces_validated_against_impl": len(graphs), "samples": samples,
        "graphs": [g["label"] for g in graphs], "parse_events_replayed": sum(len(g["events"]) for g in graphs), "rule": rule},
        assumptions, time.time() - t0, len(v.violations))
    return rc


# ---------------------------------------------------------------- generated suites

def gen_restr(suite):
    groups = sorted({n.split(".")[0] for n in suite.leaves})
    return ",".join("leaves..%s" % g for g in groups)


def check_oracle(suite, edges):
    """the independent resolver against what the generator declared; a disagreement means the oracle cannot be trusted"""
    E = set(edges)
    children = {c for c, _, _ in E}
    for name, (vms, decl, sets) in suite.leaves.items():
        tail = "@" + ".".join(vms)
        cloned = any(d[2] is None for d in decl.values())
        mes = sorted({c for c in children if c.startswith(name + ".") and c.endswith(tail)}) if cloned else [name + tail]
        if cloned and len(mes) != 2:
            raise C.MachineryError("generated suite %s: the resolver gives %d clones of %s" % (suite.root, len(mes), name))
        for vm, (kind, parent, state) in decl.items():
            okey = "images_image1_%s" % vm if kind == "images" else "vms_%s" % vm
            if state:
                for me in mes:
                    want = (me, "internal.automated.%s@%s" % (parent, vm), okey)
                    if want not in E:
                        raise C.MachineryError("generated suite %s: the resolver misses the declared dependency %s" % (suite.root, want))
            else:
                clones = [e for e in E if e[0].startswith(name + ".") and e[0].endswith("@" + ".".join(vms)) and e[2] == okey and e[1].startswith(parent + ".")]
                if len(clones) != 2:
                    raise C.MachineryError("generated suite %s: the resolver gives %d clones of %s for the two producers of %s" % (suite.root, len(clones), name, parent))
    for name, st in suite.setups.items():
        for vm in ("vm1", "vm2", "vm3"):
            me = "internal.automated.%s@%s" % (name, vm)
            if me in children and (me, "internal.automated.%s@%s" % (st["parent"], vm), "images_image1_%s" % vm) not in E:
                raise C.MachineryError("generated suite %s: the resolver misses the declared parent of %s" % (suite.root, me))


SAME_NAME_MARK = "states named after the producing test"


def _gen_job(args):
    seed, root, nets, with_expected = args[:4]
    fixed = args[4] if len(args) > 4 else None
    from . import gensuite as G
    C.repo_python_setup()
    import unittest_importer  # noqa: F401
    suite = G.write(root, random.Random(seed), fixed=getattr(G, fixed) if fixed else None)
    G.activate(suite)
    restr = gen_restr(suite)
    try:
        g, rec = R.parse_eager(restr, nets)
    except Exception as ex:  # noqa: a valid generated configuration must parse; reported by C06
        import re
        return {"parse_error": "%s: %s" % (type(ex).__name__, re.sub(r"\[(node|object)\][^\[]*", "<\\1> ", str(ex))[:80].strip()), "detail": str(ex)[:1500],
                "label": "generated suite seed %d on %s%s" % (seed, nets, " (%s)" % SAME_NAME_MARK if fixed == "STATE_NAMED_AFTER_TEST" else ""),
                "declared": suite.text, "seed": seed, "nets": nets}
    snap = S.snapshot(g, rec)
    snap["unexpanded"] = []
    snap["label"] = "generated suite seed %d (%d setup tests, %d product tests) eager on %s" % (seed, len(suite.setups), len(suite.leaves), nets)
    snap["declared"] = suite.text
    if with_expected:
        r = S.Resolver(suite.root, R.VM_VARIANT)
        seen, edges = set(), set()
        for name, (vms, decl, sets) in sorted(suite.leaves.items()):
            r.resolve("leaves." + name, vms, seen, edges)
        check_oracle(suite, edges)
        snap["expected"] = [list(e) for e in sorted(edges)]
        snap["hasexpected"] = True
    return snap


def gen_graphs(rng, n, work, with_expected=False, fixed=None):
    """eager parses of n generated suites (random setup DAGs on the shipped base), 1-3 workers; fixed = name of a handcrafted suite"""
    from ..props.c15 import fork_map
    import os
    items = [(rng.randrange(1 << 30), os.path.join(work, "gen", "%s%d" % ("f" if fixed else "s", i)),
              "net1" if fixed else rng.choice(["net1", "net1 net2", "net1 net2", "net1 net2 net3"]), with_expected and not fixed, fixed)
             for i in range(n)]
    out = []
    for it, snap in zip(items, fork_map(_gen_job, items)):
        if "harness_error" in snap:
            raise C.MachineryError("generated suite seed %d failed in the harness: %s" % (it[0], snap["harness_error"][-800:]))
        if "parse_error" in snap:
            PARSE_ERRORS.append(snap)
            continue
        out.append(snap)
    return out


PARSE_ERRORS = []      # generated (valid) configurations whose parse raised: a C06 violation, skipped by the other checks


EXTRA_VM_MARK = "producer with a vm its dependant does not use"


def gen_lazy_graphs(rng, n, seeds_per, work, fixed=None):
    """for n generated suites: the eager class edges as reference, then real lazy traversals whose final graph must equal it.
    The random suites keep the vms of a multi-producer group within those of its dependants (as the shipped suite does);
    fixed = gensuite.EXTRA_VM_PRODUCER is the one handcrafted suite without that restriction."""
    from ..sched import pool as P
    from . import gensuite as G
    import os
    out = []
    for i in range(n):
        seed = rng.randrange(1 << 30)
        tag = "f" if fixed else "s"
        suite = G.write(os.path.join(work, "genlazy", "%s%d" % (tag, i)), random.Random(seed), fixed=fixed, **({} if fixed else {"subset_producers": True}))
        restr, nets = gen_restr(suite), rng.choice(["net1 net2", "net1 net2 net3"])
        with G.active(suite):
            try:
                g, rec0 = R.parse_eager(restr, nets)
            except Exception as ex:  # noqa
                import re
                PARSE_ERRORS.append({"parse_error": "%s: %s" % (type(ex).__name__, re.sub(r"\[(node|object)\][^\[]*", "<\\1> ", str(ex))[:80].strip()),
                                     "detail": str(ex)[:1500], "label": "generated suite seed %d on %s" % (seed, nets), "declared": suite.text, "seed": seed, "nets": nets})
                continue
            first = S.snapshot(g, rec0)
        first["unexpanded"] = []
        first["declared"] = suite.text
        mark = " (%s)" % EXTRA_VM_MARK if fixed else ""
        first["label"] = "generated suite seed %d eager on %s%s" % (seed, nets, mark)
        out.append(first)
        ref = S.class_edges(first)
        rec = S.ParseRecorder()
        rec.install()
        try:
            inst = P.Instance("genlazy%s%d" % (tag, i), restr, nets, {"test_timeout": 100}, lazy=True, suite=suite)
            inst.prepare()
            inst.parse_rec = rec
            jobs = [{"sched": {"seed": rng.randrange(1 << 30), "statuses": ["PASS", "FAIL"], "weights": [6, 1]}, "store": {}, "snapshot": True, "cap": 20000}
                    for _ in range(seeds_per)]
            res = P.run_jobs(inst, jobs, work + "/genlazy_jobs%s%d" % (tag, i))
        finally:
            rec.uninstall()
        for r in res:
            if "snapshot" in r and r["outcome"] == "done":
                sn = r["snapshot"]
                sn["label"] = "generated suite seed %d lazy after traversal seed %s%s" % (seed, r["job"]["sched"]["seed"], mark)
                sn["eventscomplete"] = True
                sn["lazy"] = True
                sn["excluded"] = list(getattr(inst, "incompatible", []))
                sn["reference"] = [list(e) for e in ref]
                sn["hasreference"] = True
                out.append(sn)
    return out
