"""Recording of real parses: parse events through wrappers + final snapshot of the real graph, and the
independent dependency resolver (own composition of the Cartesian configuration, nothing from cartgraph)."""
import os
import re

ROOTISH = {"root", "0root", "boot", "0boot"}


MAIN_SETS = ["normal.nongui", "normal.gui", "nonleaves", "leaves", "normal", "minimal", "all"]


def short(name):
    """test-set invariant short name: a test is the same test whether it was selected as a leaf of a set or parsed as setup"""
    n = re.sub(r"\.vms\..*", "", name)
    for m in MAIN_SETS:
        if n.startswith(m + "."):
            return n[len(m) + 1:]
    return n


def cls_of(node):
    if node.is_shared_root():
        return "ROOT"
    if node.is_flat():
        return "FLAT:" + node.params["name"]
    return short(node.params["name"]) + "@" + ".".join(node.params.objects("vms"))


class ParseRecorder:
    def __init__(self):
        self.ids = {}
        self.events = []
        self._orig = []
        self.keep = []   # keep node objects alive so that id() stays unique

    def nid(self, node):
        k = id(node)
        if k not in self.ids:
            self.ids[k] = "n%d" % len(self.ids)
            self.keep.append(node)
        return self.ids[k]

    def install(self):
        from avocado_i2n.cartgraph import TestGraph, TestNode
        rec = self

        def wrap(cls, name, maker):
            orig = getattr(cls, name)
            rec._orig.append((cls, name, orig))
            setattr(cls, name, maker(orig))

        def new_nodes(o):
            def f(self, nodes):
                lst = nodes if isinstance(nodes, list) else [nodes]
                for n in lst:
                    rec.events.append({"a": "new", "x": rec.nid(n), "y": "-", "o": "-"})
                return o(self, nodes)
            return f

        wrap(TestGraph, "new_nodes", new_nodes)

        def descend(o):
            def f(self, test_node, test_object):
                rec.events.append({"a": "descend", "x": rec.nid(self), "y": rec.nid(test_node), "o": okey(test_object)})
                return o(self, test_node, test_object)
            return f

        wrap(TestNode, "descend_from_node", descend)

        def bridge(o):
            def f(self, test_node):
                before = test_node in self._bridged_nodes
                r = o(self, test_node)
                if not before and test_node in self._bridged_nodes:
                    rec.events.append({"a": "bridge", "x": rec.nid(self), "y": rec.nid(test_node), "o": "-"})
                return r
            return f

        wrap(TestNode, "bridge_with_node", bridge)

        def clone(o):
            def f(self, test_nodes):
                rec.events.append({"a": "clone", "x": rec.nid(self), "y": "-", "o": "-"})
                return o(self, test_nodes)
            return f

        wrap(TestNode, "clone_as_source", clone)

    def uninstall(self):
        for cls, name, orig in reversed(self._orig):
            setattr(cls, name, orig)
        self._orig = []


def okey(o):
    return "%s_%s" % (o.key, o.long_suffix)


def snapshot(graph, rec, workers=None):
    """final snapshot of the real graph in the format GraphParse.tla reads"""
    nodes, setup, cleanup, bridged, sharedregs = [], [], [], [], []
    wmap = {w.id: w for w in graph.workers.values()} if graph.workers else {}
    # events only mention nodes that are (still) part of the graph
    for n in graph.nodes:
        flat = n.is_flat()
        root = n.is_shared_root()
        gets, sets, perm = [], [], []
        avms, pvms, nets, netobjs = [], [], [], 0
        runnable = False
        if not flat:
            for o in n.objects:
                if o.key == "nets":
                    netobjs += 1
                    continue
                op = o.object_typed_params(n.params)
                if op.get("get_state"):
                    gets.append([okey(o), op.get("get_state")])
                    if o.is_permanent():
                        perm.append(okey(o))
                if op.get("set_state"):
                    sets.append([okey(o), op.get("set_state")])
            avms = sorted(o.suffix for o in n.objects if o.key == "vms")
            pvms = sorted(n.params.objects("vms"))
            nets = list(n.params.objects("nets"))
            if len(n.cloned_nodes) > 0:
                w = wmap.get(nets[0]) if nets else None
                try:
                    runnable = bool(n.should_run(w)) if w is not None else False
                except Exception:
                    runnable = True
        nodes.append({"id": rec.nid(n), "cls": cls_of(n), "name": n.params["name"], "flat": bool(flat), "root": bool(root),
                      "objroot": (not flat) and bool(n.is_object_root()), "clonesrc": len(n.cloned_nodes) > 0, "runnable": runnable,
                      "nets": nets, "pvms": pvms, "avms": avms, "netobjs": netobjs, "gets": gets, "sets": sets, "perm": perm})
        for p, objs in n.setup_nodes.items():
            for o in objs:
                setup.append([rec.nid(n), rec.nid(p), okey(o)])
        for c, objs in n.cleanup_nodes.items():
            for o in objs:
                cleanup.append([rec.nid(c), rec.nid(n), okey(o)])
        for b in n.bridged_nodes:
            bridged.append([rec.nid(n), rec.nid(b)])
            same = (n._picked_by_setup_nodes is b._picked_by_setup_nodes and n._picked_by_cleanup_nodes is b._picked_by_cleanup_nodes
                    and n._dropped_setup_nodes is b._dropped_setup_nodes and n._dropped_cleanup_nodes is b._dropped_cleanup_nodes)
            sharedregs.append([rec.nid(n), rec.nid(b), bool(same)])
    present = {x["id"] for x in nodes}
    events = [e for e in rec.events if e["x"] in present and (e["y"] == "-" or e["y"] in present)]
    wl = workers if workers is not None else sorted(wmap)
    return {"nodes": nodes, "setup": setup, "cleanup": cleanup, "bridged": bridged, "sharedregs": sharedregs, "events": events,
            "workers": wl, "excluded": [], "expected": [], "hasexpected": False, "reference": [], "hasreference": False,
            "eventscomplete": True, "lazy": False, "unexpanded": []}


def class_edges(snap):
    """[(worker, child class, parent class, object)] for composite non-root parents"""
    byid = {n["id"]: n for n in snap["nodes"]}
    out = set()
    for c, p, o in snap["setup"]:
        nc, np_ = byid[c], byid[p]
        if nc["flat"] or np_["flat"] or np_["root"] or len(nc["nets"]) != 1 or nc["clonesrc"]:
            continue
        out.add((nc["nets"][0], nc["cls"], np_["cls"], o))
    return sorted(out)


# ---------------------------------------------------------------- independent resolver (C07)

class Resolver:
    """dependencies derived from Cartesian parser dictionaries alone"""

    def __init__(self, repo, vm_variant, net="net1", force_vm=None):
        self.force_vm = force_vm
        from virttest import cartesian_config
        self.cc = cartesian_config
        self.cfg = os.path.join(repo, "tp_folder", "configs")
        self.repo = repo
        self.home = os.environ["HOME"]
        self.vm_variant, self.net = vm_variant, net
        self.cache = {}
        self.states = {}
        self.instances = {}

    def dicts(self, test_restr, vms):
        if self.force_vm:
            vms = [self.force_vm]
        key = (test_restr, tuple(vms))
        if key in self.cache:
            return self.cache[key]
        p = self.cc.Parser()
        p.parse_string("hostname = avocado\nsuite_path = %s/tp_folder\ntest_pre_hook = x\n" % self.repo)
        p.parse_file(self.cfg + "/nets.cfg")
        p.parse_string("%s:\n    only nets\njoin %s\n" % (self.net, self.net))
        p.parse_file(self.cfg + "/vms.cfg")
        p.parse_string("".join("%s:\n    only %s\n" % (vm, self.vm_variant[vm]) for vm in vms) + "join " + " ".join(vms) + "\n")
        p.parse_file(self.home + "/avocado_overwrite_vms.cfg")
        p.parse_file(self.cfg + "/sets.cfg")
        p.parse_file(self.home + "/avocado_overwrite_tests.cfg")
        p.parse_string("only %s\n" % test_restr)
        p.parse_string("nets = %s\n" % self.net)
        if self.force_vm:
            # the update tool composes every test of the remove set for the one vm (vms=<vm> in its parameters)
            p.parse_string("vms = %s\n" % self.force_vm)
        self.cache[key] = list(p.get_dicts())
        return self.cache[key]

    @staticmethod
    def strip(d, suffix):
        out = dict(d)
        for k in list(d):
            if k.endswith("_" + suffix):
                out[k[: -len(suffix) - 1]] = d[k]
        return out

    def view(self, d, obj):
        typ, vm, img = obj
        v = self.strip(d, vm)
        if img:
            v = self.strip(v, img)
        return self.strip(v, typ)

    def objects_of(self, d):
        objs = []
        for vm in d.get("vms", "").split():
            imgs = self.strip(d, vm).get("images") or "image1"
            for img in imgs.split():
                objs.append(("images", vm, img))
            objs.append(("vms", vm, None))
        return objs

    def variant_vms(self, restr, default_vms):
        """names and vms of the variants a restriction selects, read from the test sets alone"""
        key = ("vv", restr)
        if key not in self.cache:
            p = self.cc.Parser()
            p.parse_file(self.cfg + "/sets.cfg")
            p.parse_string("only %s\n" % restr)
            self.cache[key] = [(d["name"], d.get("vms", "").split()) for d in p.get_dicts()]
        if self.force_vm:
            return [(n, [self.force_vm]) for n, v in self.cache[key]]
        return [(n, v or list(default_vms)) for n, v in self.cache[key]]

    def producers(self, get, obj, seen, edges):
        """[(producer instance name, its vms, state it sets for obj)] among the variants of all..<get>; a producer that is
        itself cloned is represented by its clones (dependants of a cloned test are cloned consistently)"""
        typ, vm, img = obj
        okey_ = "%s_%s_%s" % (typ, img, vm) if img else "%s_%s" % (typ, vm)
        out = []
        for name, pvms in self.variant_vms("all.." + get, [vm]):
            if vm not in pvms:
                continue
            for inst in self.resolve(name, pvms, seen, edges):
                ps = self.states.get("%s@%s" % (inst, ".".join(pvms)), {}).get("sets", {}).get(okey_)
                if ps:
                    out.append((inst, pvms, ps))
        return out

    def resolve(self, test_restr, vms, seen, edges):
        """resolve the variants a restriction selects (composed for vms); returns the instance names (clones instead of a
        cloned source)"""
        if self.force_vm:
            vms = [self.force_vm]
        result = []
        for d in self.dicts(test_restr, vms):
            if not self.force_vm and set(d.get("vms", "").split()) != set(vms):
                continue
            me = (short(d["name"]), tuple(vms))
            if me in self.instances:
                result += self.instances[me]
                continue
            if me in seen:      # a cycle in the declarations: leave it to the real parser's own checks
                continue
            seen.add(me)
            info = {"gets": {}, "sets": {}}
            for obj in self.objects_of(d):
                v = self.view(d, obj)
                typ, vm, img = obj
                ok_ = "%s_%s_%s" % (typ, img, vm) if img else "%s_%s" % (typ, vm)
                if v.get("get_state") and v.get("get_state") not in ROOTISH:
                    info["gets"][ok_] = v.get("get_state")
                if v.get("set_state") and v.get("set_state") not in ROOTISH:
                    info["sets"][ok_] = v.get("set_state")
            fixed, ambiguous = [], []
            for obj in self.objects_of(d):
                v = self.view(d, obj)
                get = v.get("get")
                if not get:
                    continue
                typ, vm, img = obj
                gs = v.get("get_state")
                okey_ = "%s_%s_%s" % (typ, img, vm) if img else "%s_%s" % (typ, vm)
                prods = [p for p in self.producers(get, obj, seen, edges) if not gs or gs in ROOTISH or p[2] == gs]
                if len(prods) > 1:
                    ambiguous.append((okey_, prods))
                else:
                    fixed += [(okey_, p) for p in prods]
            names = [me[0]]
            key = "%s@%s" % (me[0], ".".join(vms))
            if ambiguous:
                # the dependant is cloned once per producer, the clone named after the producer's state
                assert len(ambiguous) == 1, "products of several multi-producer dependencies are not resolved independently"
                okey_, prods = ambiguous[0]
                names = []
                for pname, pvms, ps in prods:
                    clone = me[0] + "." + ps
                    names.append(clone)
                    edges.add(("%s@%s" % (clone, ".".join(vms)), "%s@%s" % (pname, ".".join(pvms)), okey_))
                    cinfo = {"gets": dict(info["gets"]), "sets": {k: x + "." + ps for k, x in info["sets"].items()}}
                    cinfo["gets"][okey_] = ps
                    self.states["%s@%s" % (clone, ".".join(vms))] = cinfo
            else:
                self.states[key] = info
            for n in names:
                for okey_, (pname, pvms, ps) in fixed:
                    edges.add(("%s@%s" % (n, ".".join(vms)), "%s@%s" % (pname, ".".join(pvms)), okey_))
            self.instances[me] = names
            result += names
        return result
