#!/bin/sh
# offline setup: syntax-check every specification and create scratch directories
set -e
cd "$(dirname "$0")"
mkdir -p build evidence replays
rc=0
for f in $(find specs -name '*.tla' | sort); do
  d=$(dirname "$f"); b=$(basename "$f")
  if ! (cd "$d" && tla-sany "$b" >/tmp/sany.$$ 2>&1); then
    echo "SANY FAILED: $f"; cat /tmp/sany.$$; rc=1
  fi
done
rm -f /tmp/sany.$$
/venv/bin/python -c "import sys; sys.path.insert(0,'.'); import vf.common, vf.tlaval" || rc=1
echo "setup done rc=$rc"
exit $rc
