------------------------------ MODULE CmdLine ------------------------------
(* C11 - command line selections and overrides mean what the documentation says
   (avocado_i2n/cmd_parser.py: params_from_cmd and the defaults it adds).

   The command line is a sequence of arguments.  The module folds it exactly like the
   tokenizing loop does - variables tests (restriction lines), usedefault, vmstrs,
   usevmdefault, selvms, netsstr, nets, pd (plain key=value overrides), err - then adds the
   defaults and evaluates the resulting test restriction with its OWN matcher over the
   universe of test variants ("," = or, ".." = followed by, "." = immediately followed by).

   An argument is a record; restriction values are structured: a sequence of alternatives,
   each a sequence of groups, each a sequence of variant names (the harness prints them as
   a,b / x..y / p.q).  Every (argument list, expected outcome) TLC enumerates is replayed
   into the real params_from_cmd and TestGraph.parse_flat_nodes. *)
EXTENDS Naturals, Sequences, FiniteSets, TLC

CONSTANTS Universe,      \* set of test variant names, each a sequence of variant names
          MainRestr,     \* variant names that count as a primary restriction
          DefaultOnly,   \* default primary restriction (one variant name)
          VMsAvail,      \* sequence of available vm names
          DefaultVM,     \* [vm -> default variant]
          NetsOf,        \* [nets restriction name -> sequence of net suffixes]
          ArgPool,       \* sequence of argument records that may appear
          MaxLen

\* ---- the matcher
GroupAt(name, g, pos) == pos + Len(g) - 1 <= Len(name) /\ \A k \in 1..Len(g) : name[pos + k - 1] = g[k]
RECURSIVE GroupsFrom(_, _, _)
\* the groups of an alternative occur in this order, each as a contiguous run, starting at or after `from`
GroupsFrom(name, groups, from) == IF groups = <<>> THEN TRUE
                                  ELSE \E pos \in from..Len(name) : GroupAt(name, Head(groups), pos)
                                                                  /\ GroupsFrom(name, Tail(groups), pos + Len(Head(groups)))
ExprMatch(name, e) == \E a \in 1..Len(e) : GroupsFrom(name, e[a], 1)
LineOK(name, line) == IF line.op = "only" THEN ExprMatch(name, line.expr) ELSE ~ExprMatch(name, line.expr)
Selected(lines) == {n \in Universe : \A k \in 1..Len(lines) : LineOK(n, lines[k])}
\* variant names mentioned in an expression
VariantsIn(e) == UNION {UNION {{e[a][g][k] : k \in 1..Len(e[a][g])} : g \in 1..Len(e[a])} : a \in 1..Len(e)}

VARIABLES args, i, tests, usedefault, vmstrs, usevmdefault, selvms, netsstr, nets, explicitnets, pd, err, out
vars == <<args, i, tests, usedefault, vmstrs, usevmdefault, selvms, netsstr, nets, explicitnets, pd, err, out>>

VMSet == {VMsAvail[k] : k \in 1..Len(VMsAvail)}
RECURSIVE ArgLists(_)
ArgLists(n) == IF n = 0 THEN {<<>>} ELSE ArgLists(n - 1) \cup {Append(l, k) : l \in {x \in ArgLists(n - 1) : Len(x) = n - 1}, k \in 1..Len(ArgPool)}

Init == /\ args \in ArgLists(MaxLen) \* indices into ArgPool
        /\ i = 1 /\ tests = <<>> /\ usedefault = TRUE
        /\ vmstrs = [v \in VMSet |-> <<>>] /\ usevmdefault = [v \in VMSet |-> TRUE]
        /\ selvms = VMsAvail /\ netsstr = "" /\ nets = <<>> /\ explicitnets = FALSE /\ pd = <<>> /\ err = "none"
        /\ out = [done |-> FALSE]

A == ArgPool[args[i]]
Put(d, k, val) == IF \E x \in 1..Len(d) : d[x][1] = k
                  THEN [x \in 1..Len(d) |-> IF d[x][1] = k THEN <<k, val>> ELSE d[x]]
                  ELSE Append(d, <<k, val>>)

Consume ==
  /\ i <= Len(args) /\ err = "none" /\ ~out.done
  /\ i' = i + 1
  /\ CASE A.kind = "malformed" -> /\ err' = "malformed" /\ UNCHANGED <<tests, usedefault, vmstrs, usevmdefault, selvms, netsstr, nets, explicitnets, pd>>
       [] A.kind \in {"only", "no"} ->
            /\ tests' = Append(tests, [op |-> A.kind, expr |-> A.expr])
            /\ usedefault' = (usedefault /\ VariantsIn(A.expr) \cap MainRestr = {})
            /\ UNCHANGED <<vmstrs, usevmdefault, selvms, netsstr, nets, explicitnets, pd, err>>
       [] A.kind \in {"only_vm", "no_vm"} ->
            IF A.vm \notin VMSet
            THEN /\ err' = "no-such-object" /\ UNCHANGED <<tests, usedefault, vmstrs, usevmdefault, selvms, netsstr, nets, explicitnets, pd>>
            ELSE /\ usevmdefault' = [usevmdefault EXCEPT ![A.vm] = FALSE]
                 /\ vmstrs' = IF A.val = "" THEN vmstrs
                              ELSE [vmstrs EXCEPT ![A.vm] = Append(@, [op |-> (IF A.kind = "only_vm" THEN "only" ELSE "no"), val |-> A.val])]
                 /\ UNCHANGED <<tests, usedefault, selvms, netsstr, nets, explicitnets, pd, err>>
       [] A.kind = "vms" ->
            /\ selvms' = A.list
            /\ err' = IF \E k \in 1..Len(A.list) : A.list[k] \notin VMSet THEN "unknown-vm" ELSE "none"
            /\ UNCHANGED <<tests, usedefault, vmstrs, usevmdefault, netsstr, nets, explicitnets, pd>>
       [] A.kind = "only_nets" ->
            \* a nets restriction together with explicit net suffixes is a conflict, in either order
            IF explicitnets
            THEN /\ err' = "nets-conflict" /\ UNCHANGED <<tests, usedefault, vmstrs, usevmdefault, selvms, netsstr, nets, explicitnets, pd>>
            ELSE /\ netsstr' = A.val /\ nets' = NetsOf[A.val]
                 /\ UNCHANGED <<tests, usedefault, vmstrs, usevmdefault, selvms, explicitnets, pd, err>>
       [] A.kind = "nets" ->
            IF netsstr # ""
            THEN /\ err' = "nets-conflict" /\ UNCHANGED <<tests, usedefault, vmstrs, usevmdefault, selvms, netsstr, nets, explicitnets, pd>>
            ELSE /\ nets' = A.list /\ explicitnets' = TRUE
                 /\ UNCHANGED <<tests, usedefault, vmstrs, usevmdefault, selvms, netsstr, pd, err>>
       [] OTHER -> \* plain key=value (comma = space)
            /\ pd' = Put(pd, A.key, A.val)
            /\ UNCHANGED <<tests, usedefault, vmstrs, usevmdefault, selvms, netsstr, nets, explicitnets, err>>
  /\ UNCHANGED <<args, out>>

DefaultLine == [op |-> "only", expr |-> <<<< <<DefaultOnly>> >>>>]
FinalTests == IF usedefault THEN Append(tests, DefaultLine) ELSE tests
FinalVmStrs == [v \in {selvms[k] : k \in 1..Len(selvms)} |->
                  IF usevmdefault[v] THEN Append(vmstrs[v], [op |-> "only", val |-> DefaultVM[v]]) ELSE vmstrs[v]]
Finish == /\ ~out.done /\ (i = Len(args) + 1 \/ err # "none")
          /\ out' = IF err # "none" THEN [done |-> TRUE, error |-> err]
                    \* a selection without any test is rejected (empty Cartesian product)
                    ELSE IF Selected(FinalTests) = {} THEN [done |-> TRUE, error |-> "empty-selection"]
                    ELSE [done |-> TRUE, error |-> "none", tests |-> FinalTests, vmstrs |-> FinalVmStrs, selvms |-> selvms,
                          nets |-> nets, pd |-> pd, selected |-> Selected(FinalTests)]
          /\ UNCHANGED <<args, i, tests, usedefault, vmstrs, usevmdefault, selvms, netsstr, nets, explicitnets, pd, err>>
Next == Consume \/ Finish
Spec == Init /\ [][Next]_vars

\* ---- properties of the expected outcome
OK == out.done /\ out.error = "none"
\* the default primary set is added exactly when no argument names a primary restriction
DefaultIffNoPrimary == OK => ((Len(out.tests) = Len(tests) + 1) <=>
                              \A k \in 1..Len(tests) : VariantsIn(tests[k].expr) \cap MainRestr = {})
\* repeated only= intersect; no= excludes
Intersects == OK => out.selected = {n \in Universe : \A k \in 1..Len(out.tests) : LineOK(n, out.tests[k])}
\* malformed arguments, unknown objects or vms, conflicting net selections are errors
ErrorsReported == out.done => (out.error \notin {"none", "empty-selection"} <=>
                     \E k \in 1..Len(args) : \/ ArgPool[args[k]].kind = "malformed"
                                             \/ (ArgPool[args[k]].kind \in {"only_vm", "no_vm"} /\ ArgPool[args[k]].vm \notin VMSet)
                                             \/ (ArgPool[args[k]].kind = "vms" /\ \E x \in 1..Len(ArgPool[args[k]].list) : ArgPool[args[k]].list[x] \notin VMSet)
                                             \/ (ArgPool[args[k]].kind \in {"nets", "only_nets"} /\
                                                 \E j \in 1..Len(args) : j # k /\ ArgPool[args[j]].kind \in {"nets", "only_nets"} /\ ArgPool[args[j]].kind # ArgPool[args[k]].kind))
=============================================================================
