------------------------------- MODULE VMNet -------------------------------
(* C18 - the vm network model stays consistent (VMNetwork / VMNetconfig / VMInterface).

   Small address space: addresses are 0..2^B-1, a netmask is a prefix length p <= B, the
   network of address a under p is a with the low B-p bits cleared.  The implementation's
   32-bit addresses are obtained by adding a random base aligned to 2^B (mask bits 32-B+p),
   so all arithmetic commutes with the concretisation.

   Actions mirror the code: Integrate(vm) is one round of VMNetwork.__init__'s loop
   (integrate_node: create the interfaces, then attach each to the first netconfig that can
   take it or to a new one derived from it), Allocate(n) is get_allocatable_address,
   Reattach(c, s) is reattach_interface without a proxy nic.  Error exits of the code are
   states (err # "none").

   Environment assumption (stated by the property itself: allocation hands out EVERY address
   of the range): statically configured addresses lie outside the DHCP range of their
   network and are pairwise distinct, and the subnets of different network configurations do
   not overlap; configurations violating it are built but not operated on. *)
EXTENDS Naturals, FiniteSets, Sequences, TLC

CONSTANTS B,          \* address bits
          Prefixes,   \* admissible prefix lengths (subset of 1..B-1)
          VMs,        \* sequence of vm names (integration order)
          Nics,       \* sequence of nic names (per vm, in this order)
          MaxOps      \* bound on allocate/reattach operations after the build

Pow2(n) == 2 ^ n                     \* TLC evaluates ^ on naturals (exponent small)
Addr == 0..(Pow2(B) - 1)
Size(p) == Pow2(B - p)
NetOf(a, p) == (a \div Size(p)) * Size(p)
Ifaces == {<<v, n>> : v \in {VMs[i] : i \in 1..Len(VMs)}, n \in {Nics[j] : j \in 1..Len(Nics)}}
None == "none"
Exhausted == Pow2(B)      \* result of an allocation from an exhausted range (same type as an address: TLC compares like with like)
NoNet == Pow2(B)          \* "interface not attached yet" (outside the address space; TLC compares only like with like)

VARIABLES cfgIp,      \* configured address per interface   [Ifaces -> Addr]
          cfgPre,     \* configured prefix per nic name      [nic -> Prefixes]
          cfgRange,   \* configured DHCP range per nic name  [nic -> <<lo, hi>>] offsets from the network address
          built,      \* number of vms integrated so far
          ip,         \* current address per integrated interface
          ncOf,       \* netconfig (network address) an interface points to, or NoNet
          nets,       \* netconfigs: network address -> [pre, lo, hi, next, members]; members: address -> interface
          order,      \* creation order of netconfigs (the code iterates its dict in insertion order)
          ops, err, last
vars == <<cfgIp, cfgPre, cfgRange, built, ip, ncOf, nets, order, ops, err, last>>

NicsSet == {Nics[j] : j \in 1..Len(Nics)}
RangeChoices(p) == {<<lo, hi>> \in (1..(Size(p) - 1)) \X (1..(Size(p) - 1)) : lo <= hi}

Init == /\ cfgPre \in [NicsSet -> Prefixes]
        /\ cfgRange \in [NicsSet -> UNION {RangeChoices(p) : p \in Prefixes}]
        /\ \A n \in NicsSet : cfgRange[n] \in RangeChoices(cfgPre[n])
        /\ cfgIp \in [Ifaces -> Addr]
        /\ \A i, j \in Ifaces : i # j => cfgIp[i] # cfgIp[j]
        \* necessary part of the environment assumption, decidable on the configuration alone: an address does not
        \* lie in the DHCP range its own nic would configure (the full assumption is StaticOutsideRange below)
        /\ \A i \in Ifaces : LET p == cfgPre[i[2]] IN ~(cfgIp[i] - NetOf(cfgIp[i], p) \in cfgRange[i[2]][1]..cfgRange[i[2]][2])
        /\ built = 0 /\ ip = [i \in Ifaces |-> cfgIp[i]] /\ ncOf = [i \in Ifaces |-> NoNet]
        /\ nets = <<>> /\ order = <<>> /\ ops = 0 /\ err = None /\ last = [op |-> "init"]

Dom(f) == DOMAIN f
\* can_add_interface(netconfig n, interface with address a and prefix p): "yes", "no" or "mask-conflict"
CanAdd(n, a, p) == IF NetOf(a, nets[n].pre) # n THEN "no"
                   ELSE IF p # nets[n].pre THEN "mask-conflict" ELSE "yes"

\* attach the interfaces of one vm, one after the other (recursive over the nic sequence)
RECURSIVE Attach(_, _, _, _, _, _)
\* returns [nets, order, ncOf, err]
Attach(vm, k, ns, ord, nco, e) ==
  IF k > Len(Nics) \/ e # None THEN [nets |-> ns, order |-> ord, ncOf |-> nco, err |-> e]
  ELSE LET i == <<vm, Nics[k]>>
           a == cfgIp[i]
           p == cfgPre[Nics[k]]
           \* first netconfig in creation order that answers yes or raises
           verdicts == [x \in 1..Len(ord) |-> IF NetOf(a, ns[ord[x]].pre) # ord[x] THEN "no"
                                                ELSE IF p # ns[ord[x]].pre THEN "mask-conflict" ELSE "yes"]
           hits == {x \in 1..Len(ord) : verdicts[x] # "no"}
       IN IF hits # {}
          THEN LET x == CHOOSE y \in hits : \A z \in hits : y <= z
                   n == ord[x]
               IN IF verdicts[x] = "mask-conflict"
                  THEN [nets |-> ns, order |-> ord, ncOf |-> nco, err |-> "IndexError"]
                  ELSE Attach(vm, k + 1, [ns EXCEPT ![n].members = (a :> i) @@ @], ord, [nco EXCEPT ![i] = n], e)
          ELSE LET n == NetOf(a, p)
                   r == cfgRange[Nics[k]]
                   nc == [pre |-> p, lo |-> r[1], hi |-> r[2], next |-> r[1], members |-> (a :> i)]
                   \* netconfigs[net_ip] = netconfig: a netconfig already registered under the same network address
                   \* (necessarily with another prefix) would be replaced; the code rejects that (IndexError)
               IN IF n \in DOMAIN ns
                  THEN [nets |-> ns, order |-> ord, ncOf |-> nco, err |-> "IndexError"]
                  ELSE Attach(vm, k + 1, (n :> nc) @@ ns, Append(ord, n), [nco EXCEPT ![i] = n], e)

Integrate == /\ built < Len(VMs) /\ err = None
             /\ LET res == Attach(VMs[built + 1], 1, nets, order, ncOf, None)
                IN /\ nets' = res.nets /\ order' = res.order /\ ncOf' = res.ncOf /\ err' = res.err
             /\ built' = built + 1
             /\ last' = [op |-> "integrate", vm |-> VMs[built + 1]]
             /\ UNCHANGED <<cfgIp, cfgPre, cfgRange, ip, ops>>

Built == built = Len(VMs) /\ err = None
\* the environment assumption, evaluated on the built network: no statically configured address lies in the DHCP
\* range of ANY netconfig (subnets of different netconfigs may overlap)
StaticOutsideRange == \A i \in Ifaces : \A n \in Dom(nets) : cfgIp[i] \notin (n + nets[n].lo)..(n + nets[n].hi)
\* ... and the subnets of different netconfigs do not overlap (overlapping subnets are a misconfiguration the code only
\* partly detects; with them "the netconfig whose subnet contains the address" is not even unique)
Span(n) == n..(n + Size(nets[n].pre) - 1)
SubnetsDisjoint == \A n, m \in Dom(nets) : n # m => Span(n) \cap Span(m) = {}
Admissible == Built /\ StaticOutsideRange /\ SubnetsDisjoint

\* get_allocatable_address of netconfig n: next free offset, or exhaustion
Allocate(n) == /\ Admissible /\ ops < MaxOps /\ n \in Dom(nets)
               /\ IF nets[n].next > nets[n].hi
                  THEN /\ err' = "IndexError" /\ UNCHANGED nets
                       /\ last' = [op |-> "allocate", net |-> n, result |-> Exhausted]
                  ELSE /\ nets' = [nets EXCEPT ![n].next = @ + 1] /\ UNCHANGED err
                       /\ last' = [op |-> "allocate", net |-> n, result |-> n + nets[n].next]
               /\ ops' = ops + 1
               /\ UNCHANGED <<cfgIp, cfgPre, cfgRange, built, ip, ncOf, order>>

Without(f, k) == [x \in Dom(f) \ {k} |-> f[x]]
\* reattach_interface(client interface c -> netconfig of server interface s), no proxy nic:
\* the new address is taken first, then the interface moves
Reattach(c, s) == /\ Admissible /\ ops < MaxOps /\ c # s
                  /\ LET n == ncOf[s]
                         old == ncOf[c]
                     IN IF nets[n].next > nets[n].hi
                        THEN /\ err' = "IndexError" /\ UNCHANGED <<nets, ip, ncOf>>
                             /\ last' = [op |-> "reattach", client |-> c, server |-> s, result |-> Exhausted]
                        ELSE LET a == n + nets[n].next
                                 ns1 == [nets EXCEPT ![old].members = Without(@, ip[c])]
                                 ns2 == [ns1 EXCEPT ![n].next = @ + 1, ![n].members = (a :> c) @@ @]
                             IN /\ nets' = ns2 /\ ip' = [ip EXCEPT ![c] = a] /\ ncOf' = [ncOf EXCEPT ![c] = n]
                                /\ UNCHANGED err
                                /\ last' = [op |-> "reattach", client |-> c, server |-> s, result |-> a]
                  /\ ops' = ops + 1
                  /\ UNCHANGED <<cfgIp, cfgPre, cfgRange, built, order>>

Next == Integrate \/ (\E n \in Dom(nets) : Allocate(n)) \/ (\E c, s \in Ifaces : Reattach(c, s))
Spec == Init /\ [][Next]_vars
\* for `tlc -simulate` only: terminal states stutter (the simulator stalls on behaviours that end early)
SimSpec == Init /\ [][Next \/ (~ENABLED Next /\ UNCHANGED vars)]_vars

\* ---- properties (C18), required in every admissible state, also after a rejected operation
Consistent ==
  (built = Len(VMs) /\ StaticOutsideRange /\ SubnetsDisjoint /\ (err = None \/ ops > 0)) =>
    /\ \A i \in Ifaces :
         /\ ncOf[i] \in Dom(nets)
         \* registered in exactly one netconfig, the one it points to, under its own address
         /\ {n \in Dom(nets) : \E a \in Dom(nets[n].members) : nets[n].members[a] = i} = {ncOf[i]}
         /\ ip[i] \in Dom(nets[ncOf[i]].members) /\ nets[ncOf[i]].members[ip[i]] = i
         \* whose subnet contains its address
         /\ NetOf(ip[i], nets[ncOf[i]].pre) = ncOf[i]
    /\ \A i, j \in Ifaces : i # j => ip[i] # ip[j]
\* allocation hands out each address of the range at most once, in range, then reports exhaustion
AllocationExact == \A n \in Dom(nets) : nets[n].next \in nets[n].lo..(nets[n].hi + 1)
AllocatedFresh == [][\A n \in Dom(nets) : n \in Dom(nets') => nets'[n].next >= nets[n].next]_vars
NetsWellFormed == \A n \in Dom(nets) : NetOf(n, nets[n].pre) = n /\ n + nets[n].hi < n + Size(nets[n].pre)
=============================================================================
