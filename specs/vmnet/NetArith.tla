------------------------------ MODULE NetArith ------------------------------
(* C18, arithmetic part - every recorded call of the real VMNetconfig address arithmetic
   (netmask -> prefix length, prefix length -> netmask, network address of an interface,
   translate_address) is recomputed here over 16-bit limbs <<hi, lo>> (TLC integers are 32-bit
   signed, IPv4 addresses are not) and compared with the recorded result. *)
EXTENDS Naturals, Sequences, TLC, Json, IOUtils

Records == JsonDeserialize(IOEnv.TRACE_FILE)

Pow2(n) == 2 ^ n
Min(a, b) == IF a < b THEN a ELSE b
\* number of mask bits falling into the high / low limb
HiBits(pre) == Min(pre, 16)
LoBits(pre) == IF pre > 16 THEN pre - 16 ELSE 0
\* keep the k leading bits of a 16-bit limb / keep the remaining trailing bits
KeepLead(x, k) == (x \div Pow2(16 - k)) * Pow2(16 - k)
KeepTrail(x, k) == x % Pow2(16 - k)
MaskLimb(k) == 65536 - Pow2(16 - k)
Mask(pre) == <<MaskLimb(HiBits(pre)), MaskLimb(LoBits(pre))>>
NetOf(a, pre) == <<KeepLead(a[1], HiBits(pre)), KeepLead(a[2], LoBits(pre))>>
HostOf(a, pre) == <<KeepTrail(a[1], HiBits(pre)), KeepTrail(a[2], LoBits(pre))>>
\* the host keeps its offset inside the subnet of the reference address
Translate(a, nat, pre) == <<NetOf(nat, pre)[1] + HostOf(a, pre)[1], NetOf(nat, pre)[2] + HostOf(a, pre)[2]>>

VARIABLE i
Init == i = 0
Next == i < Len(Records) /\ i' = i + 1
Spec == Init /\ [][Next]_i

RecordOK == i > 0 =>
    LET r == Records[i] IN
      /\ r.mask_bit = r.pre                              \* netmask -> prefix length
      /\ r.mask_from_bit = Mask(r.pre)                   \* prefix length -> netmask
      /\ r.net = NetOf(r.ip, r.pre)                      \* network address
      /\ r.translated = Translate(r.ip, r.nat, r.pre)    \* same host offset in the target subnet
AllConsumed == TLCGet("stats").diameter - 1 = Len(Records)
=============================================================================
