------------------------------ MODULE Tunnel ------------------------------
(* C19 - parameters generated for the two end points of a tunnel mirror each other.

   Abstract values: LAN_L / LAN_R are the netconfigs of the left / right node's lan nic,
   CL / CR the custom left / right nets given with local type "custom", IP_L / IP_R the
   addresses of the internet nics, MC the mode-config address.  "-" stands for "parameter
   not generated".  The module transcribes VMTunnel.__init__ + _get_peer_variant as the
   function Gen, states the mirror rules as invariants over Gen's result, and defines which
   nodes a tunnel connects.  Every (input, result) pair of the TLC state graph is executed on
   the real VMTunnel over random concrete networks. *)
EXTENDS Naturals, FiniteSets, Sequences

LocalTypes  == {"nic", "internetip", "custom"}
RemoteTypes == {"custom", "externalip", "modeconfig"}
PeerTypes   == {"ip", "dynip"}
AuthTypes   == {"absent", "none", "pubkey", "psk"}   \* "absent": auth=None; "none": auth={"type": "none"}
Bogus == "bogus"
Absent == "-"

Upper(t) == CASE t = "nic" -> "NIC" [] t = "internetip" -> "INTERNETIP" [] t = "custom" -> "CUSTOM"
              [] t = "externalip" -> "EXTERNALIP" [] t = "modeconfig" -> "MODECONFIG"
              [] t = "ip" -> "IP" [] t = "dynip" -> "DYNIP" [] OTHER -> "?"

\* the documented counterpart of the left-hand configuration (_get_peer_variant)
PeerVariant(lt, rt, pt) ==
    [local  |-> IF rt = "custom" THEN (IF lt = "custom" THEN "custom" ELSE "nic")
                ELSE IF rt = "externalip" THEN "internetip" ELSE "nic",
     remote |-> IF lt = "internetip" THEN "externalip" ELSE "custom",
     peer   |-> "ip"]

Valid(in) == in.lt \in LocalTypes /\ in.rt \in RemoteTypes /\ in.pt \in PeerTypes /\ in.at \in AuthTypes

IdType(id) == IF id = "" THEN "IP" ELSE "CUSTOM"

Gen(in) ==
  IF ~Valid(in) THEN [error |-> TRUE]
  ELSE LET pv == PeerVariant(in.lt, in.rt, in.pt)
           rnetR == IF in.rt = "custom" THEN (IF in.lt = "custom" THEN "CR" ELSE "LAN_R") ELSE Absent
           psk == in.at = "psk"
       IN [error |-> FALSE,
           L |-> [side |-> "left", lan_type |-> Upper(in.lt), remote_type |-> Upper(in.rt),
                  lan_net |-> CASE in.lt = "nic" -> "LAN_L" [] in.lt = "custom" -> "CL" [] OTHER -> Absent,
                  remote_net |-> rnetR,
                  modeconfig_ip |-> IF in.rt = "modeconfig" THEN "MC" ELSE Absent,
                  peer_type |-> Upper(in.pt),
                  peer_ip |-> IF in.pt = "ip" THEN "IP_R" ELSE Absent,
                  activation |-> IF in.pt = "ip" THEN "ALWAYS" ELSE "PASSIVE",
                  own_id |-> IF psk THEN in.lid ELSE Absent, own_id_type |-> IF psk THEN IdType(in.lid) ELSE Absent,
                  foreign_id |-> IF psk THEN in.rid ELSE Absent, foreign_id_type |-> IF psk THEN IdType(in.rid) ELSE Absent],
           R |-> [side |-> "right", lan_type |-> Upper(pv.local), remote_type |-> Upper(pv.remote),
                  lan_net |-> rnetR,
                  \* for a custom left net the right side's remote net is left to the caller (configure_vpn_route sets it)
                  remote_net |-> IF in.lt = "nic" THEN "LAN_L" ELSE Absent,
                  modeconfig_ip |-> Absent,
                  peer_type |-> Upper(pv.peer),
                  peer_ip |-> "IP_L",
                  activation |-> "ALWAYS",
                  own_id |-> IF psk THEN in.rid ELSE Absent, own_id_type |-> IF psk THEN IdType(in.rid) ELSE Absent,
                  foreign_id |-> IF psk THEN in.lid ELSE Absent, foreign_id_type |-> IF psk THEN IdType(in.lid) ELSE Absent],
           key_type |-> CASE in.at \in {"absent", "none"} -> "NONE" [] in.at = "pubkey" -> "PUBLIC" [] OTHER -> "PSK",
           psk |-> IF psk THEN "SECRET" ELSE Absent,
           left_net |-> CASE in.lt = "nic" -> "LAN_L" [] in.lt = "custom" -> "CL" [] OTHER -> Absent,
           right_net |-> rnetR]

\* ---- which nodes a tunnel connects.  Nodes: the two end points, a node in each lan, a node whose address
\*      lies in each custom net, an outsider.
Nodes == {"L", "R", "XL", "XR", "XCL", "XCR", "XO"}
Member(net) == CASE net = "LAN_L" -> {"L", "XL"} [] net = "LAN_R" -> {"R", "XR"} [] OTHER -> {}
Addable(net) == CASE net = "CL" -> {"XCL"} [] net = "CR" -> {"XCR"} [] OTHER -> {}
OnSide(o, endpoint, net, lantype) == {endpoint} \cup Member(net) \cup (IF lantype = "CUSTOM" THEN Addable(net) ELSE {})
OnLeft(o) == OnSide(o, "L", o.left_net, o.L.lan_type)
OnRight(o) == OnSide(o, "R", o.right_net, o.R.lan_type)
Connects(o, a, b) == (a \in OnLeft(o) /\ b \in OnRight(o)) \/ (a \in OnRight(o) /\ b \in OnLeft(o))

Inputs == [lt : LocalTypes \cup {Bogus}, rt : RemoteTypes \cup {Bogus}, pt : PeerTypes \cup {Bogus},
           at : AuthTypes \cup {Bogus}, lid : {"", "idL"}, rid : {"", "idR"}]

VARIABLES in, out, conn, pc
vars == <<in, out, conn, pc>>

Init == /\ in \in Inputs
        /\ (in.at # "psk" => in.lid = "" /\ in.rid = "")     \* ids only matter for psk
        /\ out = [error |-> FALSE] /\ conn = {} /\ pc = "input"

Generate == /\ pc = "input"
            /\ out' = Gen(in)
            /\ conn' = IF Gen(in).error THEN {} ELSE {p \in Nodes \X Nodes : Connects(Gen(in), p[1], p[2])}
            /\ pc' = "generated"
            /\ UNCHANGED in

Next == Generate
Spec == Init /\ [][Next]_vars

Done == pc = "generated" /\ ~out.error
\* ---- the mirror rules (the property), stated over the generated parameters
MirrorNets == Done => /\ (out.L.remote_net # Absent => out.L.remote_net = out.R.lan_net)
                      /\ (out.R.remote_net # Absent => out.R.remote_net = out.L.lan_net)
                      /\ (out.R.lan_net # Absent => out.L.remote_net = out.R.lan_net)
                      /\ (in.lt = "nic" => out.R.remote_net = out.L.lan_net)
MirrorPeers == Done => /\ out.R.peer_ip = "IP_L"
                       /\ (out.L.peer_ip # Absent => out.L.peer_ip = "IP_R")
                       /\ (out.L.activation = "PASSIVE" <=> in.pt = "dynip")
MirrorIds == Done => /\ out.L.own_id = out.R.foreign_id /\ out.R.own_id = out.L.foreign_id
                     /\ out.L.own_id_type = out.R.foreign_id_type /\ out.R.own_id_type = out.L.foreign_id_type
\* the right-hand types are the documented counterpart of the left-hand ones
Counterpart == Done => /\ (in.lt = "internetip" <=> out.R.remote_type = "EXTERNALIP")
                       /\ (in.rt = "externalip" <=> out.R.lan_type = "INTERNETIP")
                       /\ (out.R.lan_type = "CUSTOM" <=> in.lt = "custom" /\ in.rt = "custom")
                       /\ out.R.peer_type = "IP"
                       /\ out.L.side = "left" /\ out.R.side = "right"
Rejects == pc = "generated" => (out.error <=> ~Valid(in))
ConnectSymmetric == pc = "generated" => \A p \in conn : <<p[2], p[1]>> \in conn
EndpointsConnected == Done => <<"L", "R">> \in conn
=============================================================================
