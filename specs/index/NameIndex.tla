----------------------------- MODULE NameIndex -----------------------------
(* C16 - name lookups (PrefixTree) and visit counters (EdgeRegister) are exact.

   The trie is specified the way the implementation builds it: trie nodes are identified by
   the path of variants leading to them (a root path has length 1), `variant_nodes[v]` is the
   set of trie nodes labelled v, an insert walks/creates children from EVERY node labelled
   with the name's first variant and marks the last one as the end of the name.  Next to it
   stands the naive definition: the names that contain the query as a contiguous run of
   variants.  TLC checks that lookups through the trie equal the naive scan for all queries
   after every sequence of insertions, and that membership agrees with lookup.

   The register keeps form -> worker -> count exactly as EdgeRegister does; the naive side is
   the bag of register calls. *)
EXTENDS Naturals, Sequences, FiniteSets, TLC

CONSTANTS SetVariants,   \* variants that come first in a name (test sets) and nowhere else
          Variants,      \* the other variants
          MaxLen,        \* at most MaxLen variants after the set variant
          MaxInserts,    \* bound on insertions
          Forms, Workers, MaxRegs

RECURSIVE NoRep(_)
NoRep(s) == IF Len(s) <= 1 THEN TRUE ELSE Head(s) \notin {Tail(s)[i] : i \in 1..Len(s)-1} /\ NoRep(Tail(s))
Tails == UNION {[1..k -> Variants] : k \in 0..MaxLen}
\* parser-shaped names: set variant first, no variant repeated
Names == {<<sv>> \o t : sv \in SetVariants, t \in {x \in Tails : NoRep(x)}}
Alphabet == SetVariants \cup Variants
Queries == UNION {[1..k -> Alphabet] : k \in 1..3}

IsPrefixOf(q, s) == Len(q) <= Len(s) /\ \A i \in 1..Len(q) : q[i] = s[i]
ContainsRun(name, q) == \E off \in 0..(Len(name) - Len(q)) : \A i \in 1..Len(q) : name[off + i] = q[i]

VARIABLES nodes,     \* trie nodes as paths
          ends,      \* paths that are the end of an inserted name (the name is the path itself for parser-shaped names)
          inserted,  \* naive side: set of inserted names
          ninserts,
          reg,       \* [Forms -> [Workers -> Nat]]
          calls,     \* naive side: bag of register calls as a function (form, worker) -> count
          nregs,
          last       \* the last operation (for replay on the implementation)
vars == <<nodes, ends, inserted, ninserts, reg, calls, nregs, last>>

Labelled(v) == {p \in nodes : p[Len(p)] = v}

\* ---- insert as the implementation performs it
RECURSIVE Extensions(_, _)
\* all paths created when walking the variants vs from trie node p
Extensions(p, vs) == IF vs = <<>> THEN {} ELSE {Append(p, Head(vs))} \cup Extensions(Append(p, Head(vs)), Tail(vs))
Insert(name) ==
    /\ ninserts < MaxInserts
    /\ LET v0 == name[1]
           base == IF Labelled(v0) = {} THEN nodes \cup {<<v0>>} ELSE nodes
           starts == {p \in base : p[Len(p)] = v0}
       IN /\ nodes' = base \cup UNION {Extensions(p, Tail(name)) : p \in starts}
          /\ ends' = ends \cup {p \o Tail(name) : p \in starts}
    /\ inserted' = inserted \cup {name}
    /\ ninserts' = ninserts + 1
    /\ last' = [op |-> "insert", name |-> name]
    /\ UNCHANGED <<reg, calls, nregs>>

\* ---- lookups through the trie (get / __contains__)
TrieGet(q) == LET starts == Labelled(q[1])
                  hits == {p \o Tail(q) : p \in {s \in starts : (s \o Tail(q)) \in nodes}}
              IN {e \in ends : \E h \in hits : IsPrefixOf(h, e)}
TrieContains(q) == \E s \in Labelled(q[1]) : (s \o Tail(q)) \in nodes
\* ---- the definition
NaiveGet(q) == {n \in inserted : ContainsRun(n, q)}

Register(f, w) == /\ nregs < MaxRegs
                  /\ reg' = [reg EXCEPT ![f][w] = @ + 1]
                  /\ calls' = [calls EXCEPT ![<<f, w>>] = @ + 1]
                  /\ nregs' = nregs + 1
                  /\ last' = [op |-> "register", form |-> f, worker |-> w]
                  /\ UNCHANGED <<nodes, ends, inserted, ninserts>>

RECURSIVE Sum(_, _)
Sum(f, S) == IF S = {} THEN 0 ELSE LET x == CHOOSE y \in S : TRUE IN f[x] + Sum(f, S \ {x})
\* get_counters(node, worker) with either argument optional ("*")
Counters(f, w) == LET fs == IF f = "*" THEN Forms ELSE {f}
                      ws == IF w = "*" THEN Workers ELSE {w}
                      g == [p \in fs \X ws |-> reg[p[1]][p[2]]]
                  IN Sum(g, fs \X ws)
NaiveCounters(f, w) == LET fs == IF f = "*" THEN Forms ELSE {f}
                           ws == IF w = "*" THEN Workers ELSE {w}
                           g == [p \in fs \X ws |-> calls[p]]
                       IN Sum(g, fs \X ws)
\* get_workers(node) with optional node
WorkersOf(f) == LET fs == IF f = "*" THEN Forms ELSE {f} IN {w \in Workers : \E x \in fs : reg[x][w] > 0}

Init == /\ nodes = {} /\ ends = {} /\ inserted = {} /\ ninserts = 0
        /\ reg = [f \in Forms |-> [w \in Workers |-> 0]]
        /\ calls = [p \in Forms \X Workers |-> 0] /\ nregs = 0
        /\ last = [op |-> "init"]
Next == (\E n \in Names : Insert(n)) \/ (\E f \in Forms, w \in Workers : Register(f, w))
Spec == Init /\ [][Next]_vars

\* ---- properties
LookupExact == \A q \in Queries : TrieGet(q) = NaiveGet(q)
MembershipAgrees == \A q \in Queries : TrieContains(q) <=> TrieGet(q) # {}
EndsAreNames == ends = inserted            \* each name once, nothing else marked
CountersExact == \A f \in Forms \cup {"*"}, w \in Workers \cup {"*"} : Counters(f, w) = NaiveCounters(f, w)
WorkersExact == \A f \in Forms \cup {"*"} : WorkersOf(f) = {w \in Workers : NaiveCounters(f, w) > 0}
\* the trie depends only on the set of names, not on insertion order
OrderIndependent == nodes = UNION {{SubSeq(n, 1, k) : k \in 1..Len(n)} : n \in inserted}
=============================================================================
