---------------------------- MODULE TraversalObs ----------------------------
(* The refactoring-proof MONITOR of the multi-worker traversal (C01-C05, C08, C10).

   It sees only what crosses the two seams of the implementation - the test process
   (start/end of an execution with the node's parameters) and the state-control door
   (scan / unset / sync requests) - plus the completion of each worker.  It keeps the
   environment model of DESIGN appendix C (which states exist in which pool) and evaluates
   the properties, in observable terms, at every event of a recorded execution of the real
   code.  Many recorded executions are validated per TLC run; a failed check does not stop the
   run, it is recorded as <<property, trace, event, detail>> in TLC register 1 and printed by
   the postcondition.

   Constants describe the instance (extracted from the eager parse of the real graph). *)
EXTENDS Naturals, Sequences, FiniteSets, TLC, Json, IOUtils

CONSTANTS Workers,     \* worker ids
          Tests,       \* test classes (worker-invariant)
          Gets,        \* [Tests -> SUBSET States]   producible states a test starts from
          Sets,        \* [Tests -> SUBSET States]   states a passing test leaves
          Unsets,      \* [Tests -> SUBSET States]   states marked for removal after use (unset_mode f.)
          ObjRoots,    \* test classes that create an object (two-step creation)
          CloneSrcs,   \* clone sources: never runnable
          Stateless,   \* tests that leave no state: their results are shared by all workers whatever the pool scope
          Swarm,       \* [Workers -> swarm id]
          Spawner      \* [Workers -> "lxc" | "remote" | ...]

Traces == JsonDeserialize(IOEnv.TRACE_FILE)
Shared == "shared"
Locs == Workers \cup {Shared}
AllStates == UNION {Sets[t] : t \in Tests}
Producer(s) == IF \E t \in Tests : s \in Sets[t] THEN CHOOSE t \in Tests : s \in Sets[t] ELSE "none"
Dependants(s) == {t \in Tests : s \in Gets[t]}
OKStatus == {"PASS", "WARN"}
RECURSIVE SeqToSet(_)
SeqToSet(q) == IF q = <<>> THEN {} ELSE {Head(q)} \cup SeqToSet(Tail(q))

VARIABLES tr,        \* index of the trace being validated
          l,         \* index of the next event of that trace
          pool,      \* [Locs -> SUBSET States]
          running,   \* set of [t, w, pre] executions in flight
          execs,     \* finished and running main executions: sequence of [t, w, u, s] ("RUN" while in flight)
          pres,      \* results of creation pre-steps of this run: sequence of [t, w, s, u]
          scans,     \* first examinations: set of <<t, scopekey, found everything>>
          gone,      \* states removed by an unset request and not produced again since
          ended      \* workers that completed their traversal
vars == <<tr, l, pool, running, execs, pres, scans, gone, ended>>

T == Traces[tr]
E == T.events[l]
\* the reuse scope a worker belongs to (the three-case rule of is_started / is_finished / shared_filtered_results)
ScopeKey(w) == LET ps == SeqToSet(T.poolscope) IN
               IF Spawner[w] = "lxc" /\ "swarm" \notin ps THEN w
               ELSE IF Spawner[w] = "remote" /\ "cluster" \notin ps THEN Swarm[w]
               ELSE "global"
SameScope(w, v) == ScopeKey(w) = ScopeKey(v)

Note(ok, prop, detail) == IF ok THEN TRUE ELSE TLCSet(1, TLCGet(1) \cup {<<prop, tr, l, detail>>})

InitPool(k) == [x \in Locs |-> IF x \in DOMAIN Traces[k].pool THEN SeqToSet(Traces[k].pool[x]) ELSE {}]
Fresh(k) == /\ tr' = k /\ l' = 1 /\ pool' = InitPool(k) /\ running' = {} /\ execs' = <<>> /\ pres' = <<>>
            /\ scans' = {} /\ gone' = {} /\ ended' = {}
Init == /\ tr = 1 /\ l = 1 /\ pool = InitPool(1) /\ running = {} /\ execs = <<>> /\ pres = <<>>
        /\ scans = {} /\ gone = {} /\ ended = {}
        /\ TLCSet(1, {})

ExecIdx == 1..Len(execs)
ExecsOf(t, sk) == {i \in ExecIdx : execs[i].t = t /\ ScopeKey(execs[i].w) = sk}
Budget == IF T.maxtries > 1 THEN T.maxtries ELSE 1
ConcLimit == IF T.maxconc > 1 THEN T.maxconc ELSE 1
\* results of this run (and replayed ones) that make a producer's failure an excuse
FailedThisRun(p) == \/ \E i \in ExecIdx : execs[i].t = p /\ execs[i].s \notin (OKStatus \cup {"RUN"})
                    \/ \E i \in 1..Len(pres) : pres[i].t = p /\ pres[i].s \notin OKStatus
\* workers holding a PASS result of p (this run or replayed): the sources a dependant must be told about
PassedBy(p) == {execs[i].w : i \in {j \in ExecIdx : execs[j].t = p /\ execs[j].s \in OKStatus}}
               \cup {T.prev[i].w : i \in {j \in 1..Len(T.prev) : T.prev[j].t = p /\ T.prev[j].s \in OKStatus}}

\* ---- C01: a required state is available where the test was told to look, or its producer failed in this run
\* the reuse scope a location falls into for worker w, and the scopes enabled for the starting test
SrcScope(w, x) == IF x = Shared THEN "shared" ELSE IF x = w THEN "own" ELSE IF Swarm[x] = Swarm[w] THEN "swarm" ELSE "cluster"
Enabled == IF Len(E.scope) > 0 THEN SeqToSet(E.scope) ELSE SeqToSet(T.poolscope)
Avail(w, g) == \/ ("own" \in Enabled /\ g.s \in pool[w])
               \/ \E k \in 1..Len(g.src) : g.src[k] \in Locs /\ SrcScope(w, g.src[k]) \in Enabled /\ g.s \in pool[g.src[k]]
\* a required state nobody in the graph produces is only acceptable for permanent objects (externally provided)
Excused(g) == g.perm \/ (Producer(g.s) # "none" /\ FailedThisRun(Producer(g.s)))
StartOK(w) == \A k \in 1..Len(E.gets) : LET g == E.gets[k] IN
                 Note(Avail(w, g) \/ Excused(g), "C01", <<E.t, w, g.s>>)

\* ---- C08: own worker, and exactly the workers with a passing producer are named as sources
SourcesOK(w) == /\ Note(E.own, "C08", <<"not-own-worker", E.t, w>>)
                /\ \A k \in 1..Len(E.gets) : LET g == E.gets[k]
                                                 p == Producer(g.s)
                                                 named == SeqToSet(g.src) \ {Shared}
                                             IN Note(p = "none" \/ named = PassedBy(p), "C08",
                                                     <<"sources", E.t, w, g.s, named, PassedBy(p)>>)
                /\ Note(\A v \in UNION {SeqToSet(E.gets[k].src) : k \in 1..Len(E.gets)} \ {Shared} : v \in SeqToSet(E.srcw), "C08",
                        <<"access-params-missing", E.t, w>>)

\* ---- C03 / C04 at a start
RunningOf(t, sk) == {r \in running : r.t = t /\ ScopeKey(r.w) = sk}
StartBudgetOK(w) ==
    LET sk == ScopeKey(w) IN
    /\ Note(Cardinality(ExecsOf(E.t, sk)) < Budget, "C03", <<"budget", E.t, sk, Cardinality(ExecsOf(E.t, sk)) + 1, Budget>>)
    /\ Note(<<E.t, sk, TRUE>> \notin scans, "C03", <<"executed-although-states-found", E.t, sk>>)
    /\ Note(E.t \notin CloneSrcs, "C03", <<"clone-source-executed", E.t>>)
    /\ Note(T.overrun \/ Cardinality({r \in RunningOf(E.t, sk) : r.w # w}) < ConcLimit, "C04",
            <<"concurrent", E.t, sk, {r.w : r \in RunningOf(E.t, sk)} \cup {w}>>)
\* uids of executions are pairwise distinct per test and worker-specific name
\* C10 at a start: tries remain, and no COMPLETED status of the scope violates the rerun set or hits the stop set
\* (statuses of executions still in flight are unknown at decision time)
DoneStatuses(t, sk) == {execs[i].s : i \in {j \in (IF t \in Stateless THEN {x \in ExecIdx : execs[x].t = t} ELSE ExecsOf(t, sk)) : execs[j].s # "RUN"}}
\* for an object creation the decision is taken before the pre-step: the status rules are evaluated there (atPre),
\* the main step only re-checks the budget
PrevIdx(t) == {i \in 1..Len(T.prev) : T.prev[i].t = t}
PrevStatuses(t) == {T.prev[i].s : i \in PrevIdx(t)}
\* an execution forced by a missing state (the first examination did not find the produced states) is not a retry
ForcedByMissingState(t, sk) == <<t, sk, FALSE>> \in scans
RerunRuleOK(w, statusrules) ==
                  LET sk == ScopeKey(w)
                      done == (DoneStatuses(E.t, sk) \ {"LOST"}) \cup PrevStatuses(E.t)
                      \* replaying: while no execution of this run has ended, a missing state decides, not the previous results
                      \* (missing for the scope at its first examination, or missing for this worker right now: E.missing)
                      forced == PrevIdx(E.t) # {} /\ (ForcedByMissingState(E.t, sk) \/ E.missing) /\ DoneStatuses(E.t, sk) = {}
                  IN /\ Note(T.norerunrule \/ ~statusrules \/ forced \/ done = {} \/ T.maxtries > 1, "C10", <<"tries-retried-without-retries", E.t, sk, done>>)
                     /\ Note(T.norerunrule \/ ~statusrules \/ forced \/ done \subseteq SeqToSet(T.rerun), "C10", <<"tries-continued-outside-rerun-set", E.t, sk, done>>)
                     /\ Note(T.norerunrule \/ ~statusrules \/ forced \/ done \cap SeqToSet(T.stop) = {}, "C10", <<"tries-continued-after-stop-status", E.t, sk, done>>)
                     /\ Note(T.norerunrule \/ forced \/
                             Cardinality(IF E.t \in Stateless THEN {x \in ExecIdx : execs[x].t = E.t} ELSE ExecsOf(E.t, sk)) + Cardinality(PrevIdx(E.t)) < Budget,
                             "C10", <<"tries-over-budget", E.t, sk, Budget>>)
UidFresh(w) == Note(~\E i \in ExecIdx : execs[i].t = E.t /\ execs[i].w = w /\ execs[i].u = E.u, "C10", <<"uid-reused", E.t, w, E.u>>)

Ev(a) == tr <= Len(Traces) /\ l <= Len(T.events) /\ E.a = a /\ l' = l + 1 /\ tr' = tr

Start == /\ Ev("start")
         /\ StartOK(E.w) /\ SourcesOK(E.w) /\ StartBudgetOK(E.w) /\ UidFresh(E.w) /\ RerunRuleOK(E.w, E.t \notin ObjRoots)
         /\ Note(~T.dry, "C02", <<"executed-in-dry-run", E.t>>)
         /\ running' = {r \in running : ~(r.t = E.t /\ r.w = E.w /\ r.pre)} \cup {[t |-> E.t, w |-> E.w, pre |-> FALSE]}
         /\ execs' = Append(execs, [t |-> E.t, w |-> E.w, u |-> E.u, s |-> "RUN", m |-> E.missing])
         /\ UNCHANGED <<pool, pres, scans, gone, ended>>

PreStart == /\ Ev("prestart")
            /\ StartOK(E.w) /\ Note(E.own, "C08", <<"not-own-worker", E.t, E.w>>) /\ RerunRuleOK(E.w, TRUE)
            /\ Note(~\E i \in 1..Len(pres) : pres[i].t = E.t /\ pres[i].w = E.w /\ pres[i].u = E.u, "C10", <<"uid-reused-pre-step", E.t, E.w, E.u>>)
            /\ Note(T.overrun \/ Cardinality({r \in RunningOf(E.t, ScopeKey(E.w)) : r.w # E.w}) < ConcLimit, "C04",
                    <<"concurrent-creation", E.t, {r.w : r \in RunningOf(E.t, ScopeKey(E.w))} \cup {E.w}>>)
            /\ Note(~T.dry, "C02", <<"executed-in-dry-run", E.t>>)
            /\ running' = running \cup {[t |-> E.t, w |-> E.w, pre |-> TRUE]}
            /\ UNCHANGED <<pool, execs, pres, scans, gone, ended>>

PreEnd == /\ Ev("preend")
          /\ pres' = Append(pres, [t |-> E.t, w |-> E.w, s |-> E.s, u |-> E.u])
          \* a failed pre-step ends the occupation, a passed one is continued by the main step
          /\ running' = IF E.s \in {"FAIL", "ERROR", "LOST"} THEN {r \in running : ~(r.t = E.t /\ r.w = E.w)} ELSE running
          /\ UNCHANGED <<pool, execs, scans, gone, ended>>

LastRun(t, w) == CHOOSE i \in ExecIdx : execs[i].t = t /\ execs[i].w = w /\ execs[i].s = "RUN"
EndRun == /\ Ev("endrun")
          /\ \E i \in ExecIdx : execs[i].t = E.t /\ execs[i].w = E.w /\ execs[i].s = "RUN"
          /\ execs' = [execs EXCEPT ![LastRun(E.t, E.w)].s = E.s]
          /\ running' = {r \in running : ~(r.t = E.t /\ r.w = E.w)}
          /\ pool' = IF E.s \in OKStatus THEN [pool EXCEPT ![E.w] = @ \cup Sets[E.t]] ELSE pool
          /\ gone' = IF E.s \in OKStatus THEN gone \ Sets[E.t] ELSE gone
          /\ UNCHANGED <<pres, scans, ended>>

\* the FIRST examination of a test in a scope decides: if it finds every produced state, the test is not executed there
Examined(t, sk) == \E x \in scans : x[1] = t /\ x[2] = sk
\* (C08) state control requests go through the session of the worker the node was composed for
OwnDoor == Note(E.own, "C08", <<"state-control-in-foreign-environment", E.a, E.w>>)
Scan == /\ Ev("scan") /\ OwnDoor
        /\ LET req == SeqToSet(E.req)
               cands == {t \in Tests : Sets[t] # {} /\ Sets[t] = req}
               sk == ScopeKey(E.w)
           IN scans' = scans \cup {<<t, sk, E.found /\ ExecsOf(t, sk) = {} /\ RunningOf(t, sk) = {}>> : t \in {c \in cands : ~Examined(c, sk)}}
        /\ UNCHANGED <<pool, running, execs, pres, gone, ended>>

\* ---- C05: removal only of removable states, only when no dependant is running or still to be executed
\* a dependant is done when it has a completed execution, or was found reusable at its first examination
Finished(t) == \/ \E i \in ExecIdx : execs[i].t = t /\ execs[i].s # "RUN"
               \/ \E x \in scans : x[1] = t /\ x[3]
Unset == /\ Ev("unset") /\ OwnDoor
         /\ LET req == SeqToSet(E.req) IN
            /\ \A s \in req :
                 /\ Note(\E t \in Tests : s \in Unsets[t], "C05", <<"not-removable", s, E.w>>)
                 \* (the source of clones is never run itself: its clones are the dependants)
                 /\ Note(\A d \in (Dependants(s) \cap SeqToSet(T.selected)) \ CloneSrcs : ~\E r \in running : r.t = d, "C05", <<"dependant-running", s, E.w>>)
                 /\ Note(\A d \in (Dependants(s) \cap SeqToSet(T.selected)) \ CloneSrcs : Finished(d), "C05", <<"dependant-pending", s, E.w>>)
            /\ pool' = [pool EXCEPT ![E.w] = @ \ req]
            /\ gone' = gone \cup req
         /\ UNCHANGED <<running, execs, pres, scans, ended>>

\* with the default pool filter nothing is copied or altered while backing out
Sync == /\ Ev("sync") /\ OwnDoor
        /\ Note(T.poolfilter = "copy", "C05", <<"sync-with-filter", T.poolfilter, E.w>>)
        /\ pool' = [pool EXCEPT ![E.w] = @ \cup (SeqToSet(E.req) \cap pool[Shared])]
        /\ UNCHANGED <<running, execs, pres, scans, gone, ended>>

Done == /\ Ev("end") /\ ended' = ended \cup {E.w}
        /\ UNCHANGED <<pool, running, execs, pres, scans, gone>>
Error == /\ Ev("error") /\ Note(FALSE, "C02", <<"traversal-error", E.w, E.exc>>)
         /\ UNCHANGED <<pool, running, execs, pres, scans, gone, ended>>
Other == /\ tr <= Len(Traces) /\ l <= Len(T.events)
         /\ E.a \notin {"start", "prestart", "preend", "endrun", "scan", "unset", "sync", "end", "error"}
         /\ l' = l + 1 /\ UNCHANGED <<tr, pool, running, execs, pres, scans, gone, ended>>

\* ---- end of one recorded execution: whole-run checks (C02, C10), then the next trace
ExecsIn(t, sk) == IF sk = "all" THEN {i \in ExecIdx : execs[i].t = t} ELSE ExecsOf(t, sk)
StatusSeq(t, sk) == [k \in 1..Cardinality(ExecsIn(t, sk)) |->
                        execs[CHOOSE i \in ExecsIn(t, sk) : Cardinality({j \in ExecsIn(t, sk) : j <= i}) = k].s]
Lower(s) == s
\* executions continue exactly while tries remain, every status so far is in the rerun set and none in the stop set
ShouldContinue(q) == /\ Len(q) < Budget /\ T.maxtries > 1
                     /\ SeqToSet(q) \subseteq SeqToSet(T.rerun)
                     /\ SeqToSet(q) \cap SeqToSet(T.stop) = {}
\* at the end of a complete run nothing that should have been tried again is left
ScopeKeys == {ScopeKey(w) : w \in Workers}
PrevSeq(t) == [k \in 1..Cardinality(PrevIdx(t)) |-> T.prev[CHOOSE i \in PrevIdx(t) : Cardinality({j \in PrevIdx(t) : j <= i}) = k].s]
\* (an object creation whose pre-step failed could not be executed again)
TriesOK(t, sk) == LET q == PrevSeq(t) \o StatusSeq(t, sk)
                  IN \/ StatusSeq(t, sk) = <<>> \/ ~ShouldContinue(q)
                     \/ (t \in ObjRoots /\ \E i \in 1..Len(pres) : pres[i].t = t /\ pres[i].s \notin OKStatus)
\* replay: a test whose previous results call for another try (all in the rerun set, none in the stop set, tries left) is
\* executed; one with an acceptable (or stopping) previous result is not, unless a state it produces is missing
PrevCallsForRerun(t) == /\ PrevStatuses(t) \subseteq SeqToSet(T.rerun)
                        /\ PrevStatuses(t) \cap SeqToSet(T.stop) = {}
                        /\ Cardinality(PrevIdx(t)) < Budget /\ T.maxtries > 1
ReplayOK(t) == LET ran == \E i \in ExecIdx : execs[i].t = t
               IN /\ (PrevIdx(t) # {} /\ ~PrevCallsForRerun(t) /\ ran) =>
                        \/ \E sk \in ScopeKeys : ForcedByMissingState(t, sk)
                        \/ \E i \in ExecIdx : execs[i].t = t /\ execs[i].m
                  /\ (PrevIdx(t) # {} /\ PrevCallsForRerun(t) /\ t \in SeqToSet(T.mustrun)) => ran
\* the run is reported successful exactly when every executed test (grouped as the runner reports it: per worker-specific
\* name, creation pre-steps separately) has at least one acceptable result; lost results are not reported at all
Acceptable == {"PASS", "WARN", "SKIP", "CANCEL"}
Reported(q) == {i \in 1..Len(q) : q[i].s \notin {"LOST", "RUN"}}
GroupOK(q) == \A i \in Reported(q) : \E j \in Reported(q) : q[j].t = q[i].t /\ q[j].w = q[i].w /\ q[j].s \in Acceptable
Verdict == GroupOK(execs) /\ GroupOK(pres)
\* each execution reads its own result: the statuses recorded on a node are, in order, the statuses reported for its
\* executions (a PASS may be recorded as WARN by the duration rule; a lost result is recorded as ERROR)
OwnExecs(t, w) == {i \in ExecIdx : execs[i].t = t /\ execs[i].w = w}
NthOwn(t, w, k) == CHOOSE i \in OwnExecs(t, w) : Cardinality({j \in OwnExecs(t, w) : j <= i}) = k
Same(rec, rep) == rec = rep \/ (rep = "PASS" /\ rec = "WARN") \/ (rep = "LOST" /\ rec = "ERROR")
OwnResults(f) == /\ Len(f.res) = Cardinality(OwnExecs(f.t, f.w))
                 /\ \A k \in 1..Len(f.res) : Same(f.res[k], execs[NthOwn(f.t, f.w, k)].s)
Finish == /\ tr <= Len(Traces) /\ l = Len(T.events) + 1
          /\ Note(T.outcome = "done", "C02", <<"outcome", T.outcome>>)
          /\ Note(T.outcome # "done" \/ ended = Workers, "C02", <<"workers-not-back-at-start", Workers \ ended>>)
          /\ Note(T.outcome # "done" \/ running = {}, "C02", <<"still-running-at-end", running>>)
          /\ Note(T.outcome # "done" \/ \A i \in ExecIdx : execs[i].s # "RUN", "C02", <<"pending-status-recorded">>)
          /\ \A k \in 1..Len(T.final) : Note(T.outcome # "done" \/ T.lost \/ "UNKNOWN" \notin SeqToSet(T.final[k].res), "C02",
                                                <<"unknown-recorded", T.final[k].t, T.final[k].w>>)
          /\ \A t \in SeqToSet(T.mustrun) : Note(T.outcome # "done" \/ T.dry \/ (\E i \in ExecIdx : execs[i].t = t) \/ (PrevIdx(t) # {} /\ ~PrevCallsForRerun(t))
                                                     \/ (\E sk \in ScopeKeys : <<t, sk, TRUE>> \in scans), "C02", <<"never-executed", t>>)
          /\ \A t \in Tests : \A sk \in (IF t \in Stateless THEN {"all"} ELSE ScopeKeys) :
                Note(T.outcome # "done" \/ T.norerunrule \/ TriesOK(t, sk), "C10", <<"tries-stopped-early", t, sk, StatusSeq(t, sk)>>)
          /\ Note(T.outcome # "done" \/ T.allok = Verdict, "C10", <<"verdict", T.allok, Verdict>>)
          /\ \A t \in Tests : Note(T.outcome # "done" \/ Len(T.prev) = 0 \/ ReplayOK(t), "C10", <<"replay-rule", t, PrevStatuses(t)>>)
          /\ \A k \in 1..Len(T.final) : Note(T.outcome # "done" \/ Len(T.prev) > 0 \/ OwnResults(T.final[k]), "C10",
                                                <<"own-result", T.final[k].t, T.final[k].w, T.final[k].res>>)
          /\ IF tr < Len(Traces) THEN Fresh(tr + 1)
             ELSE /\ tr' = tr + 1 /\ l' = 1 /\ UNCHANGED <<pool, running, execs, pres, scans, gone, ended>>

Next == Start \/ PreStart \/ PreEnd \/ EndRun \/ Scan \/ Unset \/ Sync \/ Done \/ Error \/ Other \/ Finish
Spec == Init /\ [][Next]_vars

TotalEvents == LET f[k \in 0..Len(Traces)] == IF k = 0 THEN 0 ELSE f[k - 1] + Len(Traces[k].events) + 1 IN f[Len(Traces)]
\* every event of every trace was consumed; the recorded check failures are printed for the harness
Accepted == /\ PrintT(<<"MONITOR-FAILURES", TLCGet(1)>>)
            /\ PrintT(<<"CONSUMED", TLCGet("stats").diameter - 1, TotalEvents>>)
            /\ TLCGet("stats").diameter - 1 = TotalEvents
=============================================================================
