----------------------------- MODULE Traversal -----------------------------
(* The multi-worker traversal of the dependency graph (TestGraph.traverse_object_trees,
   traverse_node, reverse_node, traverse_terminal_node; TestNode.pick_*, drop_*, is_*_ready,
   default_run_decision, should_rerun, default_clean_decision; TestRunner.run_test_node) as an
   ALGORITHM model: one action per branch of the loop, the four shared visit registers, the
   started/finished markers, the results with the in-flight UNKNOWN placeholder, lazy
   expansion, postponed cleanup, the two-step object creation, the state pools.

   Used in two ways with the same actions:
   * exploration (SPECIFICATION Spec): the environment - which worker runs next, how every
     execution ends, what the pools initially hold - is chosen by TLC; everything a worker does
     between two awaits is atomic (variable `turn`), exactly like the coroutines of the code;
     time is abstracted: a run may end and a backed-off worker may wake at any moment (this
     over-approximates all timings in which no test overruns its timeout; the escalation of
     max_concurrent_tries after waiting longer than the timeout budget is therefore not part
     of the model);
   * trace validation (SPECIFICATION TraceSpec): every recorded step of the real code must be
     the next action of this model with the recorded arguments.

   Constants come from a generated module (MC_*.tla): the test classes, edges and states of a
   graph parsed by the real parser.  Scope is the whole run (the default pool scope). *)
EXTENDS Naturals, Sequences, FiniteSets, TLC, Json, IOUtils

CONSTANTS W,            \* workers
          WOrder,       \* their start order (sorted by name, as run_workers does)
          Tests, Root,
          FlatLeaves,   \* selected flat tests (expanded lazily)
          ObjRoots,     \* object creation nodes (two-step creation)
          Stateful,     \* tests leaving states
          Setup,        \* [Tests -> SUBSET Tests] parents (the flat leaf is a parent of its composite leaves, Root of the object roots)
          Gets, Sets,   \* [Tests -> SUBSET States]
          UnsetSets,    \* [Tests -> SUBSET States] states removed when the node is reversed (unset_mode f.)
          Removable,    \* tests with a reversible object
          Closure,      \* [FlatLeaves -> SUBSET Tests] what expanding a flat test adds
          Unrestricted, \* workers without own restrictions
          Incompatible, \* workers whose restrictions exclude the selection: expanding a flat test adds nothing for them
          InitPools,    \* set of admissible initial pools [Locs -> SUBSET States]
          Statuses,     \* statuses the environment may report
          MaxTries, MaxConc, RerunSet, StopSet,
          MaxBounce,    \* exploration bound: back-offs per worker
          DryRun,       \* dry run: nothing is executed or cleaned
          NeverRun,       \* installs of permanent objects: scan_states answers "do not run" for them whatever the pools hold
          Spawner, Swarm, \* [W -> "lxc" | "remote" | ...], [W -> swarm id]
          PoolScope,      \* enabled reuse scopes, a subset of {"own", "swarm", "cluster", "shared"} containing own and shared
          OwnUnexplored, \* the cleanup of a node is also postponed while THIS worker may still unroll a flat test (fix 'postpone the
                         \* cleanup ... own copy'); FALSE = the guard looks only at flat tests nobody has unrolled yet
          Prio, UsePrio,\* static last tie-break of the pick order (prefix priority); only fixed for eagerly parsed graphs
          Lazy          \* TRUE: start from flat tests and expand on demand; FALSE: everything parsed up front

TraceLog == IF "TRACE_FILE" \in DOMAIN IOEnv THEN ndJsonDeserialize(IOEnv.TRACE_FILE) ELSE <<>>
Flat == FlatLeaves \cup {Root}
Children == [t \in Tests |-> {c \in Tests : t \in Setup[c]}]
Locs == W \cup {"shared"}
AllStates == UNION {Sets[t] : t \in Tests}
Producer(s) == CHOOSE t \in Tests : s \in Sets[t]
None == "none"
OKStatus == {"PASS", "WARN"}

VARIABLES pc, path, dir, snap,                 \* per worker: control state, DFS stack, direction of the last traversal, unexplored snapshot
          pbs, pbc, ds, dc,                    \* the four shared registers: picked by setup / cleanup, dropped setup / cleanup
          started, finished, results,          \* occupation markers, finished workers, results per test and worker (UNKNOWN in flight)
          pool, exists, unrolled, rerunOff,    \* state pools; parsed copies; flat tests unrolled per worker; should_rerun disabled
          preFailed,                           \* object roots whose creation pre-step failed in this run
          turn, asleep, nb,                    \* scheduler: coroutine holding the loop, backed-off workers, back-off count
          bad,                                 \* property violations recorded at the action where they happen
          l                                    \* trace validation: index of the next recorded event
vars == <<pc, path, dir, snap, pbs, pbc, ds, dc, started, finished, results, pool, exists, unrolled, rerunOff, preFailed, turn, asleep, nb, bad, l>>

RECURSIVE SumSet(_, _)
SumSet(f, S) == IF S = {} THEN 0 ELSE LET x == CHOOSE y \in S : TRUE IN f[x] + SumSet(f, S \ {x})
Total(reg, t) == LET pairs == Tests \X W
                     g == [p \in pairs |-> reg[t][p[1]][p[2]]]
                 IN SumSet(g, pairs)
ZeroReg == [t \in Tests |-> [x \in Tests |-> [w \in W |-> 0]]]
Bump(reg, t, x, w) == [reg EXCEPT ![t][x][w] = @ + 1]
Last(s) == s[Len(s)]
Prev(s) == s[Len(s) - 1]
Pop(s) == SubSeq(s, 1, Len(s) - 1)
RECURSIVE SeqSet(_)
SeqSet(q) == IF q = <<>> THEN {} ELSE {Head(q)} \cup SeqSet(Tail(q))

\* ---- reuse scope (is_started / is_finished / shared_filtered_results): lxc workers without the swarm scope keep everything
\* to themselves, remote workers without the cluster scope share within their swarm, otherwise the whole run shares
Peers(w) == IF Spawner[w] = "lxc" /\ "swarm" \notin PoolScope THEN {w}
            ELSE IF Spawner[w] = "remote" /\ "cluster" \notin PoolScope THEN {v \in W : Swarm[v] = Swarm[w]}
            ELSE W
\* ---- readiness, occupation, pick order (TestNode.is_setup_ready / is_cleanup_ready / is_occupied / pick_*)
Relevant(t, w) == t \in Flat \/ exists[t][w]
\* the edge between a flat test and its composite copy exists for a worker only once that worker unrolled the flat test
\* (the copy itself may exist earlier, parsed as setup of another test)
PRel(p, w) == IF p \in FlatLeaves THEN unrolled[p][w] ELSE Relevant(p, w)
CRel(t, c, w) == IF t \in FlatLeaves THEN unrolled[t][w] /\ Relevant(c, w) ELSE Relevant(c, w)
SetupReady(t, w) == \A p \in Setup[t] : PRel(p, w) => ds[t][p][w] > 0
CleanupReady(t, w) == \A c \in Children[t] : CRel(t, c, w) => dc[t][c][w] > 0
Occupied(t, w) == t \notin Flat /\ Cardinality({v \in Peers(w) : started[t][v]}) >= MaxConc
FlatFlag(t) == IF t \in Flat THEN 0 ELSE 1
Less(k1, k2) == k1[1] < k2[1] \/ (k1[1] = k2[1] /\ k1[2] < k2[2])
ParentCands(t, w) == {p \in Setup[t] : PRel(p, w) /\ ds[t][p][w] = 0}
ChildCands(t, w) == {c \in Children[t] : CRel(t, c, w) /\ dc[t][c][w] = 0}
\* flat nodes first, then the least picked; the last tie-break (prefix priority) depends on the parse order and is left open
ByPrio(S) == IF UsePrio THEN {x \in S : \A y \in S : Prio[x] <= Prio[y]} ELSE S
BestParents(t, w) == LET C == ParentCands(t, w)
                         key(p) == <<FlatFlag(p), Total(pbc, p)>>
                     IN ByPrio({p \in C : \A q \in C : ~Less(key(q), key(p))})
BestChildren(t, w) == LET C == ChildCands(t, w)
                          key(c) == <<FlatFlag(c), Total(pbs, c)>>
                      IN ByPrio({c \in C : \A q \in C : ~Less(key(q), key(c))})
Involved(t) == {w \in W : \E x \in Tests : pbs[t][x][w] > 0 \/ pbc[t][x][w] > 0}
Unexplored == {f \in FlatLeaves : \A w \in W : ~unrolled[f][w]}
ShouldParse(f, w) == ~\E pw \in Involved(f) : unrolled[f][pw] /\ CleanupReady(f, pw) /\ pw \in Unrestricted
CanExpand(w) == /\ Len(path[w]) > 1
                /\ LET nx == Last(path[w]) IN
                     nx \in FlatLeaves /\ ~unrolled[nx][w] /\ (Unexplored # {} \/ ShouldParse(nx, w))

\* ---- run decision (default_run_decision + should_rerun), explicit in what it reads
\* results as the deciding worker sees them: of its reuse scope for a test with states, all of them for a stateless one
Seen(t, w) == IF t \in Stateful THEN Peers(w) ELSE W
AllStat(res, t, w) == UNION {SeqSet(res[t][v]) : v \in Seen(t, w)}
NumRes(res, t, w) == LET f == [v \in W |-> Len(res[t][v])] IN SumSet(f, Seen(t, w))
ShouldRerun(res, t, w) == /\ AllStat(res, t, w) \subseteq RerunSet
                          /\ StopSet \cap AllStat(res, t, w) = {}
                          /\ MaxTries # 1 /\ MaxTries - NumRes(res, t, w) > 0
Present(pl, t, w) == Sets[t] \subseteq (pl[w] \cup pl["shared"])
\* <<run, new value of rerunOff>>
Decide(res, fin, pl, off, t, w) ==
    IF t \in Flat \/ DryRun THEN <<FALSE, off>>
    ELSE IF t \notin Stateful
         THEN <<NumRes(res, t, w) = 0 \/ (~off /\ ShouldRerun(res, t, w)), off>>
         ELSE LET scan == fin[t] \cap Peers(w) = {}
                  fromscan == scan /\ ~Present(pl, t, w) /\ t \notin NeverRun
                  off2 == off \/ (NumRes(res, t, w) = 0 /\ ~fromscan)
              IN <<fromscan \/ (~off2 /\ ShouldRerun(res, t, w)), off2>>
MustRun(t, w) == Decide(results, finished, pool, rerunOff[t][w], t, w)[1]
OffAfter(t, w) == Decide(results, finished, pool, rerunOff[t][w], t, w)[2]
\* ---- clean decision (default_clean_decision) of a reversal by w: TRUE iff the states are removed
\* (a worker of a named swarm only looks at the involved workers of its own swarm; "all finished" is scope relative)
InvolvedFor(t, w) == {pv \in Involved(t) : Swarm[w] = "localhost" \/ Swarm[pv] = Swarm[w]}
FinishedAll(t, w) == IF Peers(w) = {w} /\ Spawner[w] = "lxc" /\ "swarm" \notin PoolScope THEN w \in finished[t]
                     ELSE finished[t] \cap Peers(w) = Involved(t) \cap Peers(w)
WillUnset(t, w) == /\ ~DryRun /\ t \notin Flat /\ t \in Removable /\ t \in Stateful
                   /\ \A pv \in InvolvedFor(t, w) : CleanupReady(t, pv) /\ "UNKNOWN" \notin SeqSet(results[t][pv])
                   /\ FinishedAll(t, w)

\* ---- the properties, evaluated where the code acts (recorded in `bad`)
PassedBy(p) == {v \in W : \E k \in 1..Len(results[p][v]) : results[p][v][k] \in OKStatus}
FailedThisRun(p) == p \in preFailed \/ \E v \in W : \E k \in 1..Len(results[p][v]) : results[p][v][k] \notin (OKStatus \cup {"UNKNOWN"})
\* the sources pull_locations names: the shared pool and the workers with a passing result of the producer
SrcScope(w, v) == IF v = w THEN "own" ELSE IF Swarm[v] = Swarm[w] THEN "swarm" ELSE "cluster"
Avail(w, s) == s \in pool[w] \/ s \in pool["shared"] \/ \E v \in PassedBy(Producer(s)) : SrcScope(w, v) \in PoolScope /\ s \in pool[v]
StartViolations(t, w) ==
    {<<"C01", t, w, s>> : s \in {x \in Gets[t] : ~Avail(w, x) /\ ~FailedThisRun(Producer(x))}}
    \cup (IF NumRes(results, t, w) >= (IF MaxTries > 1 THEN MaxTries ELSE 1) THEN {<<"C03", t, w, "budget">>} ELSE {})
    \cup (IF Cardinality({v \in Peers(w) \ {w} : started[t][v]}) >= (IF MaxConc > 1 THEN MaxConc ELSE 1) THEN {<<"C04", t, w, "concurrent">>} ELSE {})
    \cup (IF /\ AllStat(results, t, w) \ {"UNKNOWN"} # {}
             /\ ~(AllStat(results, t, w) \ {"UNKNOWN"} \subseteq RerunSet /\ StopSet \cap AllStat(results, t, w) = {} /\ MaxTries > 1)
          THEN {<<"C10", t, w, "retry-rule">>} ELSE {})
Dependants(s) == {d \in Tests : s \in Gets[d]}
UnsetViolations(t, w) ==
    UNION {{<<"C05", t, w, s, "dependant-running">> : d \in {x \in Dependants(s) : \E v \in W : started[x][v]}}
           \cup {<<"C05", t, w, s, "dependant-pending">> : d \in {x \in Dependants(s) : NumRes(results, x, w) = 0 /\ ~(Present(pool, x, w) /\ x \in Stateful)
                                                                                      /\ \E v \in W : exists[x][v]}}
           : s \in UnsetSets[t]}

\* ---- trace binding (only used by TraceSpec)
EvOK(w, a) == l > 0 /\ l <= Len(TraceLog) /\ TraceLog[l].w = w /\ TraceLog[l].a = a
Exploring == l = 0
\* in exploration the argument is free, in trace validation it is the recorded one
Arg(field, v) == IF Exploring THEN TRUE ELSE TraceLog[l][field] = v
Adv == l' = IF Exploring THEN 0 ELSE l + 1
On(w, a) == IF Exploring THEN TRUE ELSE EvOK(w, a)

Init == /\ pc = [w \in W |-> "new"] /\ path = [w \in W |-> <<Root>>] /\ dir = [w \in W |-> None]
        /\ snap = [w \in W |-> FALSE]
        /\ pbs = ZeroReg /\ pbc = ZeroReg /\ ds = ZeroReg /\ dc = ZeroReg
        /\ started = [t \in Tests |-> [w \in W |-> FALSE]]
        /\ finished = [t \in Tests |-> {}]
        /\ results = [t \in Tests |-> [w \in W |-> <<>>]]
        /\ pool \in InitPools
        /\ exists = [t \in Tests |-> [w \in W |-> ~Lazy /\ t \notin Flat]]
        /\ unrolled = [f \in FlatLeaves |-> [w \in W |-> ~Lazy]]
        /\ rerunOff = [t \in Tests |-> [w \in W |-> FALSE]] /\ preFailed = {}
        /\ turn = None /\ asleep = [w \in W |-> FALSE] /\ nb = [w \in W |-> 0]
        /\ bad = {}

\* a worker may act when no other coroutine holds the loop
Free(w) == turn \in {None, w}
\* all coroutines are started (each runs to its first await) before any awaited sleep or test process can end
AllBegun == \A v \in W : pc[v] # "new"
Idx(w) == CHOOSE k \in 1..Len(WOrder) : WOrder[k] = w
Begin(w) == /\ pc[w] = "new" /\ turn = None /\ On(w, "begin") /\ Adv
            /\ \A k \in 1..(Idx(w) - 1) : pc[WOrder[k]] # "new"
            /\ pc' = [pc EXCEPT ![w] = "loop"] /\ turn' = w
            /\ UNCHANGED <<path, dir, snap, pbs, pbc, ds, dc, started, finished, results, pool, exists, unrolled, rerunOff, asleep, nb, bad, preFailed>>

End(w) == /\ pc[w] = "loop" /\ Free(w) /\ CleanupReady(Root, w) /\ path[w] = <<Root>> /\ On(w, "end") /\ Adv
          /\ pc' = [pc EXCEPT ![w] = "done"] /\ turn' = None
          /\ UNCHANGED <<path, dir, snap, pbs, pbc, ds, dc, started, finished, results, pool, exists, unrolled, rerunOff, asleep, nb, bad, preFailed>>

PickFromRoot(w, c) == /\ pc[w] = "loop" /\ Free(w) /\ ~asleep[w] /\ ~CleanupReady(Root, w) /\ Len(path[w]) = 1
                      /\ c \in BestChildren(Root, w)
                      /\ On(w, "pickchild") /\ Arg("x", Root) /\ Arg("y", c) /\ Adv
                      /\ path' = [path EXCEPT ![w] = Append(@, c)]
                      /\ pbs' = Bump(pbs, c, Root, w) /\ turn' = w
                      /\ UNCHANGED <<pc, dir, snap, pbc, ds, dc, started, finished, results, pool, exists, unrolled, rerunOff, asleep, nb, bad, preFailed>>

Expand(w) == /\ pc[w] = "loop" /\ Free(w) /\ ~asleep[w] /\ ~CleanupReady(Root, w) /\ CanExpand(w)
             /\ LET f == Last(path[w]) IN
                  /\ On(w, "expand") /\ Arg("x", f) /\ Adv
                  /\ exists' = [t \in Tests |-> IF t \in Closure[f] /\ w \notin Incompatible THEN [exists[t] EXCEPT ![w] = TRUE] ELSE exists[t]]
                  /\ unrolled' = [unrolled EXCEPT ![f][w] = TRUE]
             /\ turn' = w
             /\ UNCHANGED <<pc, path, dir, snap, pbs, pbc, ds, dc, started, finished, results, pool, rerunOff, asleep, nb, bad, preFailed>>

InLoop(w) == pc[w] = "loop" /\ Free(w) /\ ~asleep[w] /\ ~CleanupReady(Root, w) /\ Len(path[w]) > 1 /\ ~CanExpand(w)

\* the node is occupied: reset the path and sleep (await)
Bounce(w) == /\ InLoop(w) /\ Occupied(Last(path[w]), w)
             /\ On(w, "bounce") /\ Arg("x", Last(path[w])) /\ Adv
             /\ path' = [path EXCEPT ![w] = <<Root>>]
             /\ asleep' = [asleep EXCEPT ![w] = TRUE] /\ nb' = [nb EXCEPT ![w] = @ + 1] /\ turn' = None
             /\ UNCHANGED <<pc, dir, snap, pbs, pbc, ds, dc, started, finished, results, pool, exists, unrolled, rerunOff, bad, preFailed>>
\* the sleep is over (not an event of the code: in a trace it is implied by the worker's next step)
Wake(w) == /\ asleep[w] /\ turn = None /\ AllBegun
           /\ asleep' = [asleep EXCEPT ![w] = FALSE] /\ turn' = w
           /\ UNCHANGED <<pc, path, dir, snap, pbs, pbc, ds, dc, started, finished, results, pool, exists, unrolled, rerunOff, nb, bad, l, preFailed>>

PickParent(w, p) == /\ InLoop(w)
                    /\ LET nx == Last(path[w]) IN
                         /\ ~Occupied(nx, w) /\ ~SetupReady(nx, w) /\ p \in BestParents(nx, w)
                         /\ On(w, "pickparent") /\ Arg("x", nx) /\ Arg("y", p) /\ Adv
                         /\ path' = [path EXCEPT ![w] = Append(@, p)]
                         /\ pbc' = Bump(pbc, p, nx, w)
                    /\ turn' = w
                    /\ UNCHANGED <<pc, dir, snap, pbs, ds, dc, started, finished, results, pool, exists, unrolled, rerunOff, asleep, nb, bad, preFailed>>

DirOf(w) == IF Prev(path[w]) \in Children[Last(path[w])] THEN "up" ELSE "down"
\* right after traverse_node returned (no await in between) the loop asks should_run again: "again" pops the path
\* (up: without dropping the parent; down: retry from above), otherwise the post-processing follows
After(w, t, res2, fin2, pl2, off1) ==
    LET dec == Decide(res2, fin2, pl2, off1, t, w) IN
      /\ rerunOff' = [rerunOff EXCEPT ![t][w] = dec[2]]
      /\ IF dec[1] THEN /\ path' = [path EXCEPT ![w] = Pop(@)] /\ pc' = [pc EXCEPT ![w] = "loop"]
                   ELSE /\ path' = path /\ pc' = [pc EXCEPT ![w] = "post"]

Skip(w) == /\ InLoop(w)
           /\ LET nx == Last(path[w]) IN
                /\ ~Occupied(nx, w) /\ SetupReady(nx, w) /\ ~MustRun(nx, w)
                /\ On(w, "skip") /\ Arg("x", nx) /\ Adv
                /\ finished' = [finished EXCEPT ![nx] = @ \cup {w}]
                /\ After(w, nx, results, finished', pool, OffAfter(nx, w))
           /\ dir' = [dir EXCEPT ![w] = DirOf(w)]
           /\ snap' = [snap EXCEPT ![w] = Unexplored # {}]
           /\ turn' = w
           /\ UNCHANGED <<pbs, pbc, ds, dc, started, results, pool, exists, unrolled, asleep, nb, bad, preFailed>>

\* the test (or, for an object root, the creation pre-step) is started: await
RunStart(w) == /\ InLoop(w)
               /\ LET nx == Last(path[w]) IN
                    /\ ~Occupied(nx, w) /\ SetupReady(nx, w) /\ MustRun(nx, w)
                    /\ On(w, IF nx \in ObjRoots THEN "prestart" ELSE "start") /\ Arg("t", nx) /\ Adv
                    /\ bad' = bad \cup StartViolations(nx, w)
                    /\ started' = [started EXCEPT ![nx][w] = TRUE]
                    /\ results' = IF nx \in ObjRoots THEN results ELSE [results EXCEPT ![nx][w] = Append(@, "UNKNOWN")]
                    /\ pc' = [pc EXCEPT ![w] = IF nx \in ObjRoots THEN "prerunning" ELSE "running"]
                    /\ rerunOff' = [rerunOff EXCEPT ![nx][w] = OffAfter(nx, w)]
               /\ dir' = [dir EXCEPT ![w] = DirOf(w)]
               /\ snap' = [snap EXCEPT ![w] = Unexplored # {}]
               /\ turn' = None
               /\ UNCHANGED <<path, pbs, pbc, ds, dc, finished, pool, exists, unrolled, asleep, nb, preFailed>>

\* the creation pre-step ends: a failure ends the traversal of the node, otherwise the main step starts at once
PreEnd(w, st) == /\ pc[w] = "prerunning" /\ turn = None /\ AllBegun /\ st \in Statuses /\ st # "LOST"
                 /\ LET nx == Last(path[w]) IN
                      /\ On(w, "preend") /\ Arg("t", nx) /\ Arg("s", st) /\ Adv
                      /\ IF st \in {"FAIL", "ERROR"}
                         THEN /\ started' = [started EXCEPT ![nx][w] = FALSE]
                              /\ finished' = [finished EXCEPT ![nx] = @ \cup {w}]
                              /\ After(w, nx, results, finished', pool, rerunOff[nx][w])
                              /\ preFailed' = preFailed \cup {nx}
                              /\ UNCHANGED bad
                         ELSE /\ pc' = [pc EXCEPT ![w] = "preended"]
                              /\ UNCHANGED <<path, started, finished, rerunOff, bad, preFailed>>
                 /\ turn' = w
                 /\ UNCHANGED <<dir, snap, pbs, pbc, ds, dc, results, pool, exists, unrolled, asleep, nb>>

MainStart(w) == /\ pc[w] = "preended" /\ Free(w)
                /\ LET nx == Last(path[w]) IN
                     /\ On(w, "start") /\ Arg("t", nx) /\ Adv
                     \* the budget is consumed only now: another worker may have started a try during the pre-step
                     /\ bad' = bad \cup {b \in StartViolations(nx, w) : b[1] \in {"C03"}}
                     /\ results' = [results EXCEPT ![nx][w] = Append(@, "UNKNOWN")]
                /\ pc' = [pc EXCEPT ![w] = "running"] /\ turn' = None
                /\ UNCHANGED <<path, dir, snap, pbs, pbc, ds, dc, started, finished, pool, exists, unrolled, rerunOff, asleep, nb, preFailed>>

RunEnd(w, st) == /\ pc[w] = "running" /\ turn = None /\ AllBegun /\ st \in Statuses /\ st # "LOST"
                 /\ LET nx == Last(path[w]) IN
                      /\ On(w, "endrun") /\ Arg("t", nx) /\ Arg("s", st) /\ Adv
                      /\ results' = [results EXCEPT ![nx][w] = [i \in 1..Len(@) |-> IF i = Len(@) THEN st ELSE @[i]]]
                      /\ pool' = IF st \in OKStatus THEN [pool EXCEPT ![w] = @ \cup Sets[nx]] ELSE pool
                      /\ started' = [started EXCEPT ![nx][w] = FALSE]
                      /\ finished' = [finished EXCEPT ![nx] = @ \cup {w}]
                      /\ After(w, nx, results', finished', pool', rerunOff[nx][w])
                 /\ turn' = w
                 /\ UNCHANGED <<dir, snap, pbs, pbc, ds, dc, exists, unrolled, asleep, nb, bad, preFailed>>

\* the result of the execution is never reported: the runner waits (10 x 30 s, other workers run meanwhile) and then
\* treats it as ERROR
EndLost(w) == /\ pc[w] \in {"running", "prerunning"} /\ turn = None /\ AllBegun /\ "LOST" \in Statuses
              /\ On(w, IF pc[w] = "running" THEN "endrun" ELSE "preend") /\ Arg("t", Last(path[w])) /\ Arg("s", "LOST") /\ Adv
              /\ pc' = [pc EXCEPT ![w] = IF pc[w] = "running" THEN "lostwait" ELSE "prelostwait"]
              /\ UNCHANGED <<path, dir, snap, pbs, pbc, ds, dc, started, finished, results, pool, exists, unrolled, rerunOff, preFailed, turn, asleep, nb, bad>>
LostResume(w) == /\ pc[w] \in {"lostwait", "prelostwait"} /\ turn = None
                 /\ LET nx == Last(path[w]) IN
                      IF pc[w] = "lostwait"
                      THEN /\ results' = [results EXCEPT ![nx][w] = [i \in 1..Len(@) |-> IF i = Len(@) THEN "ERROR" ELSE @[i]]]
                           /\ started' = [started EXCEPT ![nx][w] = FALSE]
                           /\ finished' = [finished EXCEPT ![nx] = @ \cup {w}]
                           /\ After(w, nx, results', finished', pool, rerunOff[nx][w])
                           /\ UNCHANGED preFailed
                      ELSE /\ started' = [started EXCEPT ![nx][w] = FALSE]
                           /\ finished' = [finished EXCEPT ![nx] = @ \cup {w}]
                           /\ After(w, nx, results, finished', pool, rerunOff[nx][w])
                           /\ preFailed' = preFailed \cup {nx}
                           /\ UNCHANGED results
                 /\ turn' = w
                 /\ UNCHANGED <<dir, snap, pbs, pbc, ds, dc, pool, exists, unrolled, asleep, nb, bad, l>>

PostUp(w) == /\ pc[w] = "post" /\ Free(w) /\ dir[w] = "up"
             /\ LET nx == Last(path[w])
                    pv == Prev(path[w]) IN
                  /\ On(w, "dropparent") /\ Arg("x", pv) /\ Arg("y", nx) /\ Adv
                  /\ ds' = Bump(ds, pv, nx, w)
             /\ path' = [path EXCEPT ![w] = Pop(@)]
             /\ pc' = [pc EXCEPT ![w] = "loop"] /\ turn' = w
             /\ UNCHANGED <<dir, snap, pbs, pbc, dc, started, finished, results, pool, exists, unrolled, rerunOff, asleep, nb, bad, preFailed>>

PostDownPick(w, c) == /\ pc[w] = "post" /\ Free(w) /\ dir[w] = "down" /\ ~CleanupReady(Last(path[w]), w)
                      /\ LET nx == Last(path[w]) IN
                           /\ c \in BestChildren(nx, w)
                           /\ On(w, "pickchild") /\ Arg("x", nx) /\ Arg("y", c) /\ Adv
                           /\ path' = [path EXCEPT ![w] = Append(@, c)]
                           /\ pbs' = Bump(pbs, c, nx, w)
                      /\ pc' = [pc EXCEPT ![w] = "loop"] /\ turn' = w
                      /\ UNCHANGED <<dir, snap, pbc, ds, dc, started, finished, results, pool, exists, unrolled, rerunOff, asleep, nb, bad, preFailed>>

\* a node that is cleanup ready only because dependants are not parsed yet must not be cleaned up: nobody has unrolled some
\* flat test (snapshot of this loop round), or this worker may still unroll one and thereby add children to its own copy
MustPostpone(w) == snap[w] \/ (OwnUnexplored /\ \E f \in FlatLeaves : ~unrolled[f][w] /\ ShouldParse(f, w))
Postpone(w) == /\ pc[w] = "post" /\ Free(w) /\ dir[w] = "down" /\ CleanupReady(Last(path[w]), w)
               /\ Last(path[w]) \notin Flat /\ MustPostpone(w)
               /\ On(w, "postpone") /\ Arg("x", Last(path[w])) /\ Adv
               /\ path' = [path EXCEPT ![w] = <<Root>>]
               /\ pc' = [pc EXCEPT ![w] = "loop"] /\ turn' = w
               /\ UNCHANGED <<dir, snap, pbs, pbc, ds, dc, started, finished, results, pool, exists, unrolled, rerunOff, asleep, nb, bad, preFailed>>

Reverse(w) == /\ pc[w] = "post" /\ Free(w) /\ dir[w] = "down" /\ CleanupReady(Last(path[w]), w)
              /\ ~(Last(path[w]) \notin Flat /\ MustPostpone(w))
              /\ LET nx == Last(path[w])
                     u == ~Occupied(nx, w) /\ WillUnset(nx, w) IN
                   /\ On(w, "reverse") /\ Arg("x", nx) /\ Arg("u", IF u THEN 1 ELSE 0) /\ Adv
                   /\ dc' = [x \in Tests |-> IF x \in Setup[nx] THEN [dc[x] EXCEPT ![nx][w] = @ + 1] ELSE dc[x]]
                   /\ pool' = IF u THEN [pool EXCEPT ![w] = @ \ UnsetSets[nx]] ELSE pool
                   /\ bad' = IF u THEN bad \cup UnsetViolations(nx, w) ELSE bad
              /\ path' = [path EXCEPT ![w] = Pop(@)]
              /\ pc' = [pc EXCEPT ![w] = "loop"] /\ turn' = w
              /\ UNCHANGED <<dir, snap, pbs, pbc, ds, started, finished, results, exists, unrolled, rerunOff, asleep, nb, preFailed>>

Step(w) == \/ Begin(w) \/ End(w) \/ Expand(w) \/ Bounce(w) \/ Skip(w) \/ RunStart(w) \/ MainStart(w) \/ EndLost(w)
           \/ PostUp(w) \/ Postpone(w) \/ Reverse(w)
           \/ \E c \in Tests : PickFromRoot(w, c) \/ PickParent(w, c) \/ PostDownPick(w, c)
           \/ \E st \in Statuses : PreEnd(w, st) \/ RunEnd(w, st)
Next == \E w \in W : Step(w) \/ Wake(w) \/ LostResume(w)
Spec == Init /\ l = 0 /\ [][Next]_vars

\* ---- trace validation: the same actions, the recorded arguments; a wake-up is silent and implied
TraceNext == \E w \in W : Step(w) \/ ((Wake(w) \/ LostResume(w)) /\ l <= Len(TraceLog) /\ TraceLog[l].w = w)
TraceSpec == Init /\ l = 1 /\ TLCSet(2, 1) /\ [][TraceNext]_vars
TraceAccepted == /\ PrintT(<<"TRACE-POSITION", TLCGet(2), Len(TraceLog)>>)
                 /\ TLCGet(2) = Len(TraceLog) + 1
\* progress register for the postcondition (silent steps make the diameter useless)
TrackProgress == TLCSet(2, IF l > TLCGet(2) THEN l ELSE TLCGet(2))

\* ---- properties
TypeOK == /\ \A w \in W : pc[w] \in {"new", "loop", "post", "prerunning", "preended", "running", "lostwait", "prelostwait", "done"} /\ Len(path[w]) >= 1 /\ path[w][1] = Root
          /\ turn \in W \cup {None}
NoC01 == \A b \in bad : b[1] # "C01"
NoC03 == \A b \in bad : b[1] # "C03"
NoC04 == \A b \in bad : b[1] # "C04"
NoC05 == \A b \in bad : b[1] # "C05"
NoC10 == \A b \in bad : b[1] # "C10"
\* structural: the loop never picks from an exhausted node and the path stays continuous (no RuntimeError / AssertionError)
PathContinuous == \A w \in W : \A k \in 2..Len(path[w]) : path[w][k] \in Children[path[w][k - 1]] \/ path[w][k] \in Setup[path[w][k - 1]]
\* somebody can always move until everybody is done (no deadlock between waiting workers)
NoStall == (\A w \in W : pc[w] = "done") \/ ENABLED Next
AllDone == \A w \in W : pc[w] = "done"
\* at the end every selected compatible test has a definite result or was found reusable
Completed == AllDone => \A f \in FlatLeaves : \A t \in {x \in Closure[f] : f \in Setup[x]} :
                            \E w \in W : (NumRes(results, t, w) > 0 /\ "UNKNOWN" \notin AllStat(results, t, w)) \/ (t \in Stateful /\ Present(pool, t, w))
BounceBound == \A w \in W : nb[w] <= MaxBounce
\* ---- liveness (C02): no coroutine keeps the event loop for ever. Everything a worker does between two awaits is one
\* uninterrupted run of steps with turn = w; a cycle among such steps would be an await-free endless loop that hangs all
\* workers (the postponed cleanup and the retry of a node both jump back without awaiting).
LiveSpec == Spec /\ WF_vars(Next)
NoSpin == \A w \in W : []<>(turn # w)
=============================================================================
