---------------------------- MODULE StateSetup ----------------------------
(* C12 - state operations (avocado_i2n/states/setup.py) follow the documented policy table
   and a plain store model.

   Store: for every stateful object (the net, each vm, each image of each vm) a root flag
   (the object exists) and a set of ordinary state names.  An operation call iterates the
   objects the way _parametric_object_iteration does (for each vm: its images, then the vm;
   finally the net), and handles every object by (1) the check chain with its own root policy
   (check_mode: first letter = root exists, second = root missing; f = force, r = reuse) and
   (2) the 2-letter mode table of the operation (first letter = state exists, second = state
   missing; a = abort, r = reuse, i = ignore, f = force).  An abort or an invalid letter ends
   the call; objects handled earlier keep their (documented) effect.

   Backend actions (get/set/unset and their _root forms, destroy) are recorded in `acts`; the
   in-memory backend used for the replay applies them to its store exactly as ApplyAct does:
   unset_root removes the object together with its states. *)
EXTENDS Naturals, Sequences, FiniteSets, TLC

CONSTANTS VMs,        \* sequence of vm names
          Images,     \* sequence of image names (each vm has all of them)
          SNames,     \* ordinary state names
          Calls,      \* set of call records that may be issued (defined by the model module)
          MaxCalls,
          InitStores  \* "all", "images" (only images vary), "sparse" (any roots, one state name) or "canonical" (everything exists, no states)

ROOT == "root"
Net == <<"net">>
VmObj(v) == <<"vm", v>>
ImgObj(v, i) == <<"img", v, i>>
RECURSIVE ImgSeq(_, _)
ImgSeq(v, k) == IF k > Len(Images) THEN <<>> ELSE <<ImgObj(v, Images[k])>> \o ImgSeq(v, k + 1)
RECURSIVE VmSeq(_)
VmSeq(k) == IF k > Len(VMs) THEN <<>> ELSE ImgSeq(VMs[k], 1) \o <<VmObj(VMs[k])>> \o VmSeq(k + 1)
\* iteration order of _parametric_object_iteration for states_chain = nets vms images
ObjSeq == VmSeq(1) \o <<Net>>
Objs == {ObjSeq[k] : k \in 1..Len(ObjSeq)}
TypeOf(o) == CASE o[1] = "net" -> "nets" [] o[1] = "vm" -> "vms" [] OTHER -> "images"
CompType(o) == CASE o[1] = "net" -> "nets" [] o[1] = "vm" -> "nets/vms" [] OTHER -> "nets/vms/images"

\* a call: do, targets (types whose <do>_state is set), state, mode (<<l1, l2>>), cmode (<<l1, l2>>),
\*         skip (composite types in skip_types), ro (readonly image names)
Skipped(c, o) == CompType(o) \in c.skip \/ (o[1] = "img" /\ o[3] \in c.ro)

VARIABLES root, st, outcome, acts, ncalls, last
vars == <<root, st, outcome, acts, ncalls, last>>

Act(a, o, s) == [act |-> a, obj |-> o, state |-> s]
\* effect of a backend action on the store record S = [root, st, acts, out]
Do(S, a, o, s) ==
   LET S1 == [S EXCEPT !.acts = Append(@, Act(a, o, s))] IN
   CASE a = "set" -> [S1 EXCEPT !.st[o] = @ \cup {s}]
     [] a = "unset" -> [S1 EXCEPT !.st[o] = @ \ {s}]
     [] a = "set_root" -> [S1 EXCEPT !.root[o] = TRUE]
     [] a = "unset_root" -> [S1 EXCEPT !.root[o] = FALSE, !.st[o] = {}]
     [] OTHER -> S1          \* get, get_root, destroy: no change of the store
Fail(S, how) == [S EXCEPT !.out = how]

\* ---- the check chain for one object. direct = called by the user (composite type visible), otherwise
\*      reached through get/set/unset (plain type).  Result: [S, ex] ; S.out may become "error"; ex = state exists;
\*      "stop" in ex position means check_states returned False because of a missing root under policy r
CheckObj(S, o, s, cm, direct) ==
   IF ~S.root[o]
   THEN IF cm[2] = "f" THEN LET S1 == Do(S, "set_root", o, ROOT) IN [S |-> S1, ex |-> (IF s = ROOT THEN TRUE ELSE s \in S1.st[o])]
        ELSE IF cm[2] = "r" THEN [S |-> S, ex |-> FALSE]
        ELSE [S |-> Fail(S, "error"), ex |-> FALSE]
   ELSE IF cm[1] = "f"
        THEN LET S1 == IF direct /\ o[1] = "vm" THEN Do(S, "destroy", o, ROOT) ELSE Do(S, "unset_root", o, ROOT)
                 S2 == Do(S1, "set_root", o, ROOT)
             IN [S |-> S2, ex |-> (IF s = ROOT THEN TRUE ELSE s \in S2.st[o])]
        ELSE LET S1 == Do(S, "get_root", o, ROOT) IN [S |-> S1, ex |-> (IF s = ROOT THEN TRUE ELSE s \in S1.st[o])]

RootForm(base) == CASE base = "get" -> "get_root" [] base = "set" -> "set_root" [] OTHER -> "unset_root"
Final(S, base, o, s) == IF s = ROOT THEN Do(S, RootForm(base), o, ROOT) ELSE Do(S, base, o, s)

GetObj(S, o, s, m, cm) ==
   LET c == CheckObj(S, o, s, cm, FALSE) IN
   IF c.S.out # "ok" THEN c.S
   ELSE IF ~c.ex THEN (IF m[2] = "a" THEN Fail(c.S, "abort") ELSE IF m[2] = "i" THEN c.S ELSE Fail(c.S, "error"))
   ELSE IF m[1] = "a" THEN Fail(c.S, "abort")
   ELSE IF m[1] = "r" THEN Final(c.S, "get", o, s)
   ELSE IF m[1] = "i" THEN c.S
   ELSE Fail(c.S, "error")

SetObj(S, o, s, m, cm) ==
   LET c == CheckObj(S, o, s, cm, FALSE) IN
   IF c.S.out # "ok" THEN c.S
   ELSE IF c.ex THEN (IF m[1] = "a" THEN Fail(c.S, "abort")
                      ELSE IF m[1] = "r" THEN c.S
                      ELSE IF m[1] = "f" THEN Final(Final(c.S, "unset", o, s), "set", o, s)
                      ELSE Fail(c.S, "error"))
   ELSE IF m[2] = "a" THEN Fail(c.S, "abort")
   ELSE IF m[2] = "f" THEN (IF s # ROOT /\ ~c.S.root[o] THEN Fail(c.S, "error") ELSE Final(c.S, "set", o, s))
   ELSE Fail(c.S, "error")

UnsetObj(S, o, s, m, cm) ==
   LET c == CheckObj(S, o, s, cm, FALSE) IN
   IF c.S.out # "ok" THEN c.S
   ELSE IF ~c.ex THEN (IF m[2] = "a" THEN Fail(c.S, "abort") ELSE IF m[2] = "i" THEN c.S ELSE Fail(c.S, "error"))
   ELSE IF m[1] = "r" THEN c.S
   ELSE IF m[1] = "f" THEN Final(c.S, "unset", o, s)
   ELSE Fail(c.S, "error")

\* pop = get (with the pop mode) then unset (with the same pop mode), both on this object only
PopObj(S, o, s, m, cm) ==
   LET S1 == GetObj(S, o, s, m, cm) IN IF S1.out # "ok" THEN S1 ELSE UnsetObj(S1, o, s, m, cm)

\* one object of the iteration
StepObj(S, c, o) ==
   IF TypeOf(o) \notin c.targets THEN S
   ELSE CASE c.do = "get" -> IF Skipped(c, o) THEN S ELSE GetObj(S, o, c.state, c.mode, c.cmode)
          [] c.do = "set" -> IF Skipped(c, o) THEN S ELSE SetObj(S, o, c.state, c.mode, c.cmode)
          [] c.do = "unset" -> IF Skipped(c, o) THEN S ELSE UnsetObj(S, o, c.state, c.mode, c.cmode)
          \* push/pop restrict the inner call to the object: skip_types and readonly are not consulted
          [] c.do = "push" -> IF c.state = ROOT THEN S ELSE SetObj(S, o, c.state, c.mode, c.cmode)
          [] c.do = "pop" -> IF c.state = ROOT THEN S ELSE PopObj(S, o, c.state, c.mode, c.cmode)
          [] OTHER -> S

RECURSIVE Run(_, _, _)
Run(S, c, k) == IF k > Len(ObjSeq) \/ S.out # "ok" THEN S ELSE Run(StepObj(S, c, ObjSeq[k]), c, k + 1)

\* direct check_states: returns TRUE/FALSE, stops at the first object whose state is missing
RECURSIVE RunCheck(_, _, _)
RunCheck(S, c, k) ==
   IF k > Len(ObjSeq) \/ S.out # "ok" THEN S
   ELSE LET o == ObjSeq[k] IN
        IF TypeOf(o) \notin c.targets \/ Skipped(c, o) THEN RunCheck(S, c, k + 1)
        ELSE LET r == CheckObj(S, o, c.state, c.cmode, TRUE) IN
             IF r.S.out # "ok" THEN r.S
             ELSE IF ~r.ex THEN Fail(r.S, "false") ELSE RunCheck(r.S, c, k + 1)

Result(c) == LET S0 == [root |-> root, st |-> st, acts |-> <<>>, out |-> "ok"]
             IN IF c.do = "check" THEN RunCheck(S0, c, 1) ELSE Run(S0, c, 1)

Init == /\ CASE InitStores = "all" -> root \in [Objs -> BOOLEAN] /\ st \in [Objs -> SUBSET SNames]
             [] InitStores = "images" -> /\ root \in [Objs -> BOOLEAN] /\ st \in [Objs -> SUBSET SNames]
                                         /\ \A o \in Objs : o[1] # "img" => root[o] /\ st[o] = {}
             [] InitStores = "sparse" -> /\ root \in [Objs -> BOOLEAN]
                                         /\ \E f \in [Objs -> BOOLEAN] : st = [o \in Objs |-> IF f[o] THEN {CHOOSE x \in SNames : TRUE} ELSE {}]
             [] OTHER -> root = [o \in Objs |-> TRUE] /\ st = [o \in Objs |-> {}]
        /\ outcome = "ok" /\ acts = <<>> /\ ncalls = 0 /\ last = 0

\* Calls is a sequence; `last` is the index of the call issued last (0 = none)
Call(i) == /\ ncalls < MaxCalls
           /\ LET R == Result(Calls[i]) IN
                /\ root' = R.root /\ st' = R.st /\ acts' = R.acts
                /\ outcome' = (IF R.out = "false" THEN "false" ELSE R.out)
           /\ ncalls' = ncalls + 1 /\ last' = i
Next == \E i \in 1..Len(Calls) : Call(i)
Spec == Init /\ [][Next]_vars

\* ---- properties
Touched(as) == {as[k].obj : k \in 1..Len(as)}
Writes(as) == {k \in 1..Len(as) : as[k].act \in {"set", "unset", "set_root", "unset_root"}}
\* objects and types not addressed by the parameters are never touched
NonInterference == last > 0 =>
    LET c == Calls[last] IN
      \A o \in Touched(acts) : TypeOf(o) \in c.targets /\ (c.do \in {"push", "pop"} \/ ~Skipped(c, o))
\* the abort row and the invalid-letter row perform no backend write of their own: the last recorded action of an
\* aborted/erroneous call is never a write issued for the object at which the call stopped after its mode decision
\* (root forcing by the check policy is the check row's documented action)
OnlyChangedWhereWritten == [][\A o \in Objs : (root'[o] # root[o] \/ st'[o] # st[o]) =>
                                 \E k \in Writes(acts') : acts'[k].obj = o]_vars
\* ordinary states only ever change by their own name
PlainStore == [][\A o \in Objs : \A s \in SNames :
                   ((s \in st[o]) # (s \in st'[o])) =>
                       \E k \in Writes(acts') : acts'[k].obj = o /\ (acts'[k].state = s \/ acts'[k].act = "unset_root")]_vars
\* ignore and reuse rows of set/unset leave the object untouched; reading operations never write states
ReadOnlyOps == [][last' > 0 /\ Calls[last'].do \in {"check", "get"} =>
                    \A k \in Writes(acts') : acts'[k].act \in {"set_root", "unset_root"}]_vars
=============================================================================
