------------------------------- MODULE Update -------------------------------
(* C15 - the update tool reruns exactly the requested path and drops only its dependants.

   Per vm the saved states form a derivation relation Dep[v] (state, state it is derived
   from), obtained from the configuration by the independent resolver for the remove set
   composed for that vm alone (as the tool does).  An update request selects vms and, per vm,
   a starting and a target state.  The module defines what must happen: the states on the
   path from..to (both included) are produced again - their producing tests are executed, once -
   every worker removes exactly that vm's states derived from the target state, nothing else
   is executed or removed, and unknown states are rejected.  Every request TLC enumerates is
   executed on the real intertest_setup.update. *)
EXTENDS Naturals, FiniteSets, Sequences, TLC

CONSTANTS VMs,        \* vm names
          StatesOf,   \* [VMs -> set of state names]
          Addressable,\* [VMs -> states that can be named in a request: the tool names a state by the setup test producing it]
          Dep,        \* [VMs -> set of <<derived state, state it starts from>>]
          Workers,    \* set of worker-count choices, e.g. {1, 2}
          Bogus       \* an unknown state name

RECURSIVE Anc(_, _, _)
\* states s is (transitively) derived from, within vm v
Anc(v, front, seen) == IF front = {} THEN seen
                       ELSE LET nxt == {d[2] : d \in {x \in Dep[v] : x[1] \in front}} \ seen IN Anc(v, nxt, seen \cup nxt)
Ancestors(v, s) == Anc(v, {s}, {})
Descendants(v, s) == {x \in StatesOf[v] : s \in Ancestors(v, x)}
\* from..to, both included, when from is to or an ancestor of to
ValidPair(v, f, t) == f \in StatesOf[v] /\ t \in StatesOf[v] /\ (f = t \/ f \in Ancestors(v, t))
Path(v, f, t) == {s \in Ancestors(v, t) \cup {t} : s = f \/ f \in Ancestors(v, s)}

Requests == [VMs -> {<<"-", "-">>} \cup UNION {{<<f, t>> : f \in Addressable[v] \cup {Bogus}, t \in Addressable[v] \cup {Bogus}} : v \in VMs}]

VARIABLES req, nworkers, out, pc
vars == <<req, nworkers, out, pc>>
Selected(r) == {v \in VMs : r[v] # <<"-", "-">>}

Init == /\ req \in Requests
        /\ Selected(req) # {}
        /\ \A v \in Selected(req) : /\ req[v][1] \in Addressable[v] \cup {Bogus} /\ req[v][2] \in Addressable[v] \cup {Bogus}
                                    /\ (req[v][1] = Bogus \/ req[v][2] = Bogus \/ ValidPair(v, req[v][1], req[v][2]))
        \* at most one unknown state per request keeps the enumeration small
        /\ Cardinality({v \in Selected(req) : Bogus \in {req[v][1], req[v][2]}}) <= 1
        /\ nworkers \in Workers
        /\ out = [error |-> FALSE, execs |-> {}, unsets |-> {}] /\ pc = "request"

Rejected == \E v \in Selected(req) : Bogus \in {req[v][1], req[v][2]}
DoUpdate == /\ pc = "request"
            /\ out' = IF Rejected THEN [error |-> TRUE, execs |-> {}, unsets |-> {}]
                      ELSE [error |-> FALSE,
                            execs |-> UNION {{<<v, s>> : s \in Path(v, req[v][1], req[v][2])} : v \in Selected(req)},
                            unsets |-> UNION {{<<v, s>> : s \in Descendants(v, req[v][2])} : v \in Selected(req)}]
            /\ pc' = "done" /\ UNCHANGED <<req, nworkers>>
Spec == Init /\ [][DoUpdate]_vars

\* ---- the property, on the expected effect
Done == pc = "done" /\ ~out.error
OnlySelected == Done => \A p \in out.execs \cup out.unsets : p[1] \in Selected(req)
PathNotRemoved == Done => out.execs \cap out.unsets = {}
BothEndsIncluded == Done => \A v \in Selected(req) : <<v, req[v][1]>> \in out.execs /\ <<v, req[v][2]>> \in out.execs
NothingBeforeStart == Done => \A v \in Selected(req) : \A s \in Ancestors(v, req[v][1]) : <<v, s>> \notin out.execs
UnknownRejected == pc = "done" => (out.error <=> Rejected)
=============================================================================
