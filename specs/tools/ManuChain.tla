------------------------------ MODULE ManuChain ------------------------------
(* C20 - manual steps act once per selected vm and worker, in the given order.

   Part A (the chain, Manu.run): the steps of a setup chain are attempted one after the other,
   each exactly once and in the given order; a step fails by returning a non-zero value or by
   raising; the chain reports failure (1) exactly when some step failed, and a failing step
   does not prevent the later ones.

   Part B (one step, intertest_setup.<tool>): a state step (check, get, set, unset, push, pop)
   is one test per selected vm per compatible worker; a vm-management step (boot, shutdown, ...)
   is one test per compatible worker acting on all selected vms.  Either way every selected vm
   is acted on exactly once on every compatible worker and no other vm ever.

   Part C (a chain of real tools, one run configuration shared by all steps): a tool applies its own
   parameters on top of the user's for the duration of the step only - the create / clean / collect
   templates overwrite pool_scope, check_mode_images and a state/mode pair - so every step runs with
   the user's parameters plus its own, whatever ran before it; a step whose test fails makes its tool
   report failure (a value other than 0 / None), which part A turns into the chain's return code. *)
EXTENDS Naturals, Sequences, FiniteSets, TLC

CONSTANTS Steps,        \* step names usable in a chain
          Outcomes,     \* {"zero", "none", "one", "raise"}
          MaxChain,
          StateSteps, VmSteps,   \* tools of the two templates
          VMs, Nets,
          Compatible,   \* [Nets -> SUBSET VMs]: vms a worker's restrictions admit
          RealTools,    \* tools usable in a real chain (part C)
          Overriding,   \* [RealTools -> SUBSET UserKeys]: user-settable keys a tool's template overwrites during its step
          UserKeys,     \* keys the user may pass on the command line (abstract values: "user" / "default")
          MaxReal

VARIABLES chain,    \* sequence of [step, outcome]
          pos, log, rc,
          tool, sel, nets, execs, phase,
          pd,       \* part C: the run parameters between steps: [UserKeys -> {"user", "default"} \cup RealTools]
          seen      \* part C: per executed step, the parameters its test ran with and what its tool reported
vars == <<chain, pos, log, rc, tool, sel, nets, execs, phase, pd, seen>>

RECURSIVE Chains(_)
Chains(n) == IF n = 0 THEN {<<>>} ELSE Chains(n - 1) \cup {Append(c, [step |-> s, outcome |-> o]) : c \in {x \in Chains(n - 1) : Len(x) = n - 1}, s \in Steps, o \in Outcomes}

RECURSIVE RealChains(_)
RealChains(n) == IF n = 0 THEN {<<>>} ELSE RealChains(n - 1) \cup {Append(c, [step |-> s, outcome |-> o]) : c \in {x \in RealChains(n - 1) : Len(x) = n - 1},
                                                                                 s \in RealTools, o \in {"ok", "fail"}}
UserPd == [UserKeys -> {"user", "default"}]

Init == /\ \/ /\ phase = "chain" /\ chain \in Chains(MaxChain) \ {<<>>}
              /\ tool = "-" /\ sel = {} /\ nets = {} /\ pd = [k \in UserKeys |-> "default"]
           \/ /\ phase = "real" /\ chain \in RealChains(MaxReal) \ {<<>>}
              /\ tool = "-" /\ sel = {} /\ nets = {} /\ pd \in UserPd
           \/ /\ phase = "tool" /\ chain = <<>>
              /\ tool \in StateSteps \cup VmSteps /\ sel \in SUBSET VMs \ {{}} /\ nets \in SUBSET Nets \ {{}}
              /\ pd = [k \in UserKeys |-> "default"]
        /\ pos = 1 /\ log = <<>> /\ rc = 0 /\ execs = {} /\ seen = <<>>

\* ---- part A
RunStep == /\ phase = "chain" /\ pos <= Len(chain)
           /\ log' = Append(log, chain[pos].step)
           /\ rc' = IF chain[pos].outcome \in {"one", "raise"} THEN 1 ELSE rc
           /\ pos' = pos + 1
           /\ UNCHANGED <<chain, tool, sel, nets, execs, phase, pd, seen>>
\* ---- part B: the set of executions <<worker, vms acted on>> of one tool call
\* a state step is composed per vm: a worker whose restrictions exclude one vm still serves the others;
\* a vm-management step is one test for all selected vms: a worker must admit all of them
Serves(n, v) == v \in sel /\ IF tool \in StateSteps THEN v \in Compatible[n] ELSE sel \subseteq Compatible[n]
RunTool == /\ phase = "tool" /\ pos = 1
           /\ execs' = IF tool \in StateSteps
                       THEN {<<n, {v}>> : n \in nets, v \in VMs} \cap {<<n, {v}>> : n \in nets, v \in {x \in sel : \E m \in nets : TRUE}} \cap
                            {e \in {<<n, {v}>> : n \in nets, v \in sel} : \A v \in e[2] : v \in Compatible[e[1]]}
                       ELSE {<<n, sel>> : n \in {m \in nets : sel \subseteq Compatible[m]}}
           /\ pos' = 2
           /\ UNCHANGED <<chain, log, rc, tool, sel, nets, phase, pd, seen>>
\* ---- part C: one step of a real chain; the tool's template is applied for the step and taken back afterwards
During(t) == [k \in UserKeys |-> IF k \in Overriding[t] THEN t ELSE pd[k]]
RunReal == /\ phase = "real" /\ pos <= Len(chain)
           /\ LET t == chain[pos].step IN
                /\ seen' = Append(seen, [params |-> During(t), reports |-> IF chain[pos].outcome = "fail" THEN "failure" ELSE "success"])
                /\ rc' = IF chain[pos].outcome = "fail" THEN 1 ELSE rc
                /\ log' = Append(log, t)
           /\ pd' = pd
           /\ pos' = pos + 1
           /\ UNCHANGED <<chain, tool, sel, nets, execs, phase>>
Next == RunStep \/ RunTool \/ RunReal
Spec == Init /\ [][Next]_vars

\* ---- properties
ChainDone == phase = "chain" /\ pos = Len(chain) + 1
AllAttemptedInOrder == ChainDone => log = [k \in 1..Len(chain) |-> chain[k].step]
FailureReported == ChainDone => (rc = 1 <=> \E k \in 1..Len(chain) : chain[k].outcome \in {"one", "raise"})
\* part C: every step sees the user's parameters plus its own template, nothing of an earlier step
RealDone == phase = "real" /\ pos = Len(chain) + 1
StepParamsOwn == phase = "real" => \A k \in 1..Len(seen) : \A key \in UserKeys :
                    seen[k].params[key] = (IF key \in Overriding[chain[k].step] THEN chain[k].step ELSE pd[key])
RealFailureReported == RealDone => (rc = 1 <=> \E k \in 1..Len(chain) : chain[k].outcome = "fail")
ToolDone == phase = "tool" /\ pos = 2
\* every selected vm exactly once on every compatible worker, no other vm ever
OncePerVmAndWorker == ToolDone => \A n \in nets : \A v \in VMs :
                         Cardinality({e \in execs : e[1] = n /\ v \in e[2]}) = (IF Serves(n, v) THEN 1 ELSE 0)
=============================================================================
