----------------------------- MODULE PoolScope -----------------------------
(* C13 - pool access respects the enabled scopes and prefers the closest source
   (SourcedStateBackend / RootSourcedStateBackend in avocado_i2n/states/pool.py).

   A source is characterised by where it is relative to the asking worker: same or other
   gateway, same or other host, and whether its path is the worker's own swarm pool path,
   the shared pool path or some other path.  Scope classification and proximity follow
   get_source_scope / get_sources.  The world is one state name: `cache` (the local copy
   exists), `mirror[k]` (source number k holds it), `valid` (the local copy equals the
   chosen source's - outcome of the checksum comparison of the backing chain).

   Every operation records the sources it contacted (`contacts`, in order) and the local
   backend calls (`locals`); the transport used for the replay moves the state exactly as
   the actions below do. *)
EXTENDS Naturals, Sequences, FiniteSets, TLC

CONSTANTS Kinds,      \* set of source kinds [gw, host, path] that may appear in a location list
          MaxSources, \* location lists of length 0..MaxSources without repetition
          Ops         \* operations to explore

AllScopes == {"own", "swarm", "cluster", "shared"}

\* get_source_scope
ScopeOf(k) == IF k.gw # "same" THEN "cluster"
              ELSE IF k.host # "same" THEN "swarm"
              ELSE IF k.path = "shared" THEN "shared"
              ELSE IF k.path = "swarm" THEN "own"
              ELSE "shared"
\* proximity score of get_sources
Prox(k) == (IF k.gw = "same" THEN 1000 ELSE 0) + (IF k.host = "same" THEN 100 ELSE 0) + (IF k.path = "swarm" THEN 10 ELSE 1)

VARIABLES srcs,      \* configured location list (sequence of kinds)
          scopes,    \* enabled pool_scope subset
          cache, mirror, valid, rootlocal, rootpool,
          op, contacts, locals, result
vars == <<srcs, scopes, cache, mirror, valid, rootlocal, rootpool, op, contacts, locals, result>>

RECURSIVE Lists(_)
Lists(n) == IF n = 0 THEN {<<>>} ELSE Lists(n - 1) \cup {Append(l, k) : l \in {x \in Lists(n - 1) : Len(x) = n - 1}, k \in Kinds}
NoDup(l) == \A i, j \in 1..Len(l) : i # j => l[i] # l[j]

\* stable sort by descending proximity = what sorted(..., key=proximity, reverse=True) yields
RECURSIVE InsertSorted(_, _)
InsertSorted(l, i) == \* l: sequence of indices already sorted; insert index i after all entries with prox >= prox(i)
    IF l = <<>> THEN <<i>>
    ELSE IF Prox(srcs[Head(l)]) >= Prox(srcs[i]) THEN <<Head(l)>> \o InsertSorted(Tail(l), i) ELSE <<i>> \o l
RECURSIVE SortIdx(_)
SortIdx(n) == IF n = 0 THEN <<>> ELSE InsertSorted(SortIdx(n - 1), n)
\* NOTE: Python's reverse=True keeps the original order of equal keys
Order == SortIdx(Len(srcs))
Permitted(i) == ScopeOf(srcs[i]) # "own" /\ ScopeOf(srcs[i]) \in scopes
PermittedInOrder == SelectSeq(Order, Permitted)

Init == /\ srcs \in {l \in Lists(MaxSources) : NoDup(l)}
        /\ scopes \in SUBSET AllScopes
        /\ cache \in BOOLEAN /\ valid \in BOOLEAN
        /\ mirror \in [1..Len(srcs) -> BOOLEAN]
        /\ rootlocal \in BOOLEAN /\ rootpool \in BOOLEAN
        \* root operations only use the shared pool: explored with the empty location list (keeps the product small)
        /\ (srcs # <<>> => ~rootlocal /\ ~rootpool)
        /\ (srcs = <<>> => ~cache)
        /\ op = "none" /\ contacts = <<>> /\ locals = <<>> /\ result = "none"

C(what, i) == [what |-> what, src |-> i]
Done(o, cs, ls, res) == op' = o /\ contacts' = cs /\ locals' = ls /\ result' = res

\* show: cache listing when own is enabled; permitted mirrors are combined as coded (an empty running
\* result is re-initialised from the next mirror), the cache listing is added
RECURSIVE Combine(_, _)
Combine(acc, l) == IF l = <<>> THEN acc
                   ELSE Combine(IF acc = FALSE THEN mirror[Head(l)] ELSE (acc /\ mirror[Head(l)]), Tail(l))
Show == /\ op = "none" /\ "show" \in Ops
        /\ LET own == "own" \in scopes
               pool == Combine(FALSE, PermittedInOrder)
           IN Done("show", [k \in 1..Len(PermittedInOrder) |-> C("show", PermittedInOrder[k])],
                   IF own THEN <<"_show">> ELSE <<>>,
                   IF (own /\ cache) \/ pool THEN "present" ELSE "absent")
        /\ UNCHANGED <<srcs, scopes, cache, mirror, valid, rootlocal, rootpool>>

\* get: only the closest permitted source is considered; download iff it has the state and the cache is missing or differs
Get == /\ op = "none" /\ "get" \in Ops
       /\ LET own == "own" \in scopes
              has == PermittedInOrder # <<>>
              i == IF has THEN Head(PermittedInOrder) ELSE 0
              download == has /\ mirror[i] /\ ~(cache /\ valid)
              cs == IF ~has THEN <<>>
                    ELSE <<C("show", i)>> \o (IF mirror[i] /\ cache THEN <<C("compare", i)>> ELSE <<>>)
                                        \o (IF download THEN <<C("get", i)>> ELSE <<>>)
          IN /\ Done("get", cs, (IF has THEN <<"_show">> ELSE <<>>) \o (IF own THEN <<"_get">> ELSE <<>>), "ok")
             /\ cache' = (cache \/ download)
       /\ UNCHANGED <<srcs, scopes, mirror, valid, rootlocal, rootpool>>

\* set: local set when own is enabled, otherwise the local state must exist; then every permitted mirror
Set == /\ op = "none" /\ "set" \in Ops
       /\ LET own == "own" \in scopes IN
          IF ~own /\ ~cache
          THEN /\ Done("set", <<>>, <<"_show">>, "RuntimeError") /\ UNCHANGED <<cache, mirror>>
          ELSE /\ Done("set", [k \in 1..Len(PermittedInOrder) |-> C("set", PermittedInOrder[k])],
                       IF own THEN <<"_set">> ELSE <<"_show">>, "ok")
               /\ cache' = (cache \/ own)
               /\ mirror' = [i \in 1..Len(srcs) |-> mirror[i] \/ Permitted(i)]
       /\ UNCHANGED <<srcs, scopes, valid, rootlocal, rootpool>>

Unset == /\ op = "none" /\ "unset" \in Ops
         /\ LET own == "own" \in scopes IN
            /\ Done("unset", [k \in 1..Len(PermittedInOrder) |-> C("unset", PermittedInOrder[k])],
                    IF own THEN <<"_unset">> ELSE <<>>, "ok")
            /\ cache' = (cache /\ ~own)
            /\ mirror' = [i \in 1..Len(srcs) |-> mirror[i] /\ ~Permitted(i)]
         /\ UNCHANGED <<srcs, scopes, valid, rootlocal, rootpool>>

\* ---- root states: the only pool is the shared pool (source index 0 = the shared pool of the worker)
SharedEnabled == "shared" \in scopes
OnlyOwn == scopes = {"own"}
CheckRoot == /\ op = "none" /\ "check_root" \in Ops /\ srcs = <<>>
             /\ IF ~SharedEnabled
                THEN Done("check_root", <<>>, <<"_check_root">>, IF rootlocal THEN "present" ELSE "absent")
                ELSE Done("check_root", <<C("check_root", 0)>>, <<"_check_root">>,
                          IF rootlocal \/ rootpool THEN "present" ELSE "absent")
             /\ UNCHANGED <<srcs, scopes, cache, mirror, valid, rootlocal, rootpool>>

GetRoot == /\ op = "none" /\ "get_root" \in Ops /\ srcs = <<>>
           /\ IF ~SharedEnabled
              THEN /\ Done("get_root", <<>>, IF "own" \in scopes THEN <<"_get_root">> ELSE <<>>, "ok") /\ UNCHANGED rootlocal
              ELSE IF "own" \notin scopes
              THEN /\ Done("get_root", <<C("get_root", 0)>>, <<>>, "ok") /\ rootlocal' = (rootlocal \/ rootpool)
              ELSE LET download == rootpool /\ ~(rootlocal /\ valid)
                   IN /\ Done("get_root", <<C("check_root", 0)>> \o (IF rootpool /\ rootlocal THEN <<C("compare", 0)>> ELSE <<>>)
                                           \o (IF download THEN <<C("get_root", 0)>> ELSE <<>>),
                              <<"_check_root", "_get_root">>, "ok")
                      /\ rootlocal' = (rootlocal \/ download)
           /\ UNCHANGED <<srcs, scopes, cache, mirror, valid, rootpool>>

SetRoot == /\ op = "none" /\ "set_root" \in Ops /\ srcs = <<>>
           /\ IF OnlyOwn THEN /\ Done("set_root", <<>>, <<"_set_root">>, "ok") /\ rootlocal' = TRUE /\ UNCHANGED rootpool
              ELSE IF scopes = {"shared"}
              THEN IF ~rootlocal THEN /\ Done("set_root", <<>>, <<"_check_root">>, "RuntimeError") /\ UNCHANGED <<rootlocal, rootpool>>
                   ELSE /\ Done("set_root", <<C("set_root", 0)>>, <<"_check_root">>, "ok") /\ rootpool' = TRUE /\ UNCHANGED rootlocal
              ELSE /\ Done("set_root", <<>>, <<>>, "RuntimeError") /\ UNCHANGED <<rootlocal, rootpool>>
           /\ UNCHANGED <<srcs, scopes, cache, mirror, valid>>

UnsetRoot == /\ op = "none" /\ "unset_root" \in Ops /\ srcs = <<>>
             /\ IF OnlyOwn THEN /\ Done("unset_root", <<>>, <<"_unset_root">>, "ok") /\ rootlocal' = FALSE /\ UNCHANGED rootpool
                ELSE IF scopes = {"shared"}
                THEN /\ Done("unset_root", <<C("unset_root", 0)>>, <<>>, "ok") /\ rootpool' = FALSE /\ UNCHANGED rootlocal
                ELSE /\ Done("unset_root", <<>>, <<>>, "RuntimeError") /\ UNCHANGED <<rootlocal, rootpool>>
             /\ UNCHANGED <<srcs, scopes, cache, mirror, valid>>

Next == Show \/ Get \/ Set \/ Unset \/ CheckRoot \/ GetRoot \/ SetRoot \/ UnsetRoot
Spec == Init /\ [][Next]_vars

\* ---- properties
Contacted == {contacts[k].src : k \in 1..Len(contacts)}
\* only sources whose scope is enabled are contacted (0 = the shared pool for root states)
ContactsPermitted == \A i \in Contacted : IF i = 0 THEN "shared" \in scopes ELSE Permitted(i)
\* fetching uses the closest permitted source only
ClosestOnly == op = "get" => \A i \in Contacted : \A j \in 1..Len(srcs) : Permitted(j) => Prox(srcs[i]) >= Prox(srcs[j])
\* saving and removing reach every permitted mirror
AllMirrors == op \in {"set", "unset"} /\ result = "ok" => Contacted = {i \in 1..Len(srcs) : Permitted(i)}
\* present only if in the cache or in a permitted source
ShowSound == op = "show" /\ result = "present" => (("own" \in scopes /\ cache) \/ \E i \in 1..Len(srcs) : Permitted(i) /\ mirror[i])
\* a download happens only when the source has the state and the local copy is missing or differs
DownloadOnlyIfDiffers == \A k \in 1..Len(contacts) : contacts[k].what \in {"get", "get_root"} /\ "own" \in scopes =>
                            IF contacts[k].src = 0 THEN TRUE ELSE mirror[contacts[k].src]
\* updating a pool without the local state is refused
RefuseWithoutLocal == op = "set" /\ "own" \notin scopes /\ result = "ok" => cache
=============================================================================
