------------------------------ MODULE PoolLock ------------------------------
(* C14 - pool transfers are exact, never destroy data, and exclude each other
   (TransferOps.*_local / *_link and image_lock in avocado_i2n/states/pool.py).

   Several processes operate on ONE pool file (each with its own cache file).  Every wrapped
   system call of the implementation is one action: the non-blocking lock attempt (success, or
   busy followed by a one-second sleep, up to `Timeout` attempts, then RuntimeError), the
   checksum comparison, the copy / unlink / symlink, the unlock in the finally clause.  A process
   may crash (SIGKILL) at any point - the kernel then releases its lock - and the copy may fail
   with an exception, in which case the finally clause unlocks.

   File contents are abstract versions: 0 = file absent, 1..K = data.  A cache may instead be a
   symlink to the pool file (link mode). *)
EXTENDS Naturals, FiniteSets, Sequences, TLC

CONSTANTS Procs,     \* process ids
          OpOf,      \* [Procs -> {"upload", "download", "delete", "download_link", "upload_link"}]
          Versions,  \* 1..K
          Timeout,   \* lock attempts before giving up (update_pool_timeout)
          MayCrash,  \* processes that may be killed
          MayFail    \* processes whose copy may raise

None == "none"
VARIABLES pc,        \* per process: "start", "sleep", "locked", "compared", "acted", "done", "raised", "crashed"
          tries,     \* lock attempts made
          holder,    \* lock holder or None
          pool,      \* content of the pool file (0 = absent)
          cache,     \* content of each process's cache file (0 = absent)
          link,      \* cache is a symlink to the pool file
          equal,     \* result of the comparison made under the lock
          copies,    \* history: sequence of [p, from, to, content] copies performed
          err        \* per process: exception raised ("none", "timeout", "data-exists", "upload-link", "io")
vars == <<pc, tries, holder, pool, cache, link, equal, copies, err>>

Content(p) == IF link[p] THEN pool ELSE cache[p]     \* what reading the cache path yields

Init == /\ pc = [p \in Procs |-> "start"] /\ tries = [p \in Procs |-> 0] /\ holder = None
        /\ pool \in Versions \cup {0}
        /\ cache \in [Procs -> Versions \cup {0}]
        /\ link \in [Procs -> BOOLEAN]
        /\ \A p \in Procs : link[p] => (cache[p] = 0 /\ OpOf[p] \in {"download_link", "upload_link"})
        /\ equal = [p \in Procs |-> FALSE] /\ copies = <<>> /\ err = [p \in Procs |-> None]

\* upload_link refuses a symlinked cache before taking the lock
RefuseLink(p) == /\ pc[p] = "start" /\ OpOf[p] = "upload_link" /\ link[p]
                 /\ pc' = [pc EXCEPT ![p] = "raised"] /\ err' = [err EXCEPT ![p] = "upload-link"]
                 /\ UNCHANGED <<tries, holder, pool, cache, link, equal, copies>>

CanTry(p) == pc[p] = "start" /\ ~(OpOf[p] = "upload_link" /\ link[p]) /\ tries[p] < Timeout
TryLockOK(p) == /\ CanTry(p) /\ holder = None
                /\ holder' = p /\ pc' = [pc EXCEPT ![p] = "locked"] /\ tries' = [tries EXCEPT ![p] = @ + 1]
                /\ UNCHANGED <<pool, cache, link, equal, copies, err>>
TryLockBusy(p) == /\ CanTry(p) /\ holder # None /\ holder # p
                  /\ pc' = [pc EXCEPT ![p] = "sleep"] /\ tries' = [tries EXCEPT ![p] = @ + 1]
                  /\ UNCHANGED <<holder, pool, cache, link, equal, copies, err>>
Wake(p) == /\ pc[p] = "sleep" /\ pc' = [pc EXCEPT ![p] = "start"]
           /\ UNCHANGED <<tries, holder, pool, cache, link, equal, copies, err>>
GiveUp(p) == /\ pc[p] = "start" /\ tries[p] >= Timeout /\ ~(OpOf[p] = "upload_link" /\ link[p])
             /\ pc' = [pc EXCEPT ![p] = "raised"] /\ err' = [err EXCEPT ![p] = "timeout"]
             /\ UNCHANGED <<tries, holder, pool, cache, link, equal, copies>>

\* the comparison under the lock (delete does not compare)
Compare(p) == /\ pc[p] = "locked" /\ OpOf[p] # "delete"
              /\ equal' = [equal EXCEPT ![p] = IF OpOf[p] = "download_link" /\ link[p] THEN TRUE ELSE Content(p) = pool]
              /\ pc' = [pc EXCEPT ![p] = "compared"]
              /\ UNCHANGED <<tries, holder, pool, cache, link, copies, err>>

Copy(p, src, dst, c) == Append(copies, [p |-> p, from |-> src, to |-> dst, content |-> c])
\* the action under the lock
Act(p) == /\ \/ pc[p] = "compared" \/ (pc[p] = "locked" /\ OpOf[p] = "delete")
          /\ CASE OpOf[p] = "delete" ->
                    IF pool = 0 THEN /\ err' = [err EXCEPT ![p] = "io"] /\ UNCHANGED <<pool, cache, link, copies>>
                    ELSE /\ pool' = 0 /\ UNCHANGED <<cache, link, copies, err>>
               [] OpOf[p] \in {"upload", "upload_link"} ->
                    IF equal[p] THEN UNCHANGED <<pool, cache, link, copies, err>>
                    ELSE IF Content(p) = 0 THEN /\ err' = [err EXCEPT ![p] = "io"] /\ UNCHANGED <<pool, cache, link, copies>>
                    ELSE /\ pool' = Content(p) /\ copies' = Copy(p, "cache", "pool", Content(p)) /\ UNCHANGED <<cache, link, err>>
               [] OpOf[p] = "download" ->
                    IF equal[p] THEN UNCHANGED <<pool, cache, link, copies, err>>
                    ELSE IF pool = 0 THEN /\ err' = [err EXCEPT ![p] = "io"] /\ UNCHANGED <<pool, cache, link, copies>>
                    ELSE /\ cache' = [cache EXCEPT ![p] = pool] /\ copies' = Copy(p, "pool", "cache", pool) /\ UNCHANGED <<pool, link, err>>
               [] OTHER -> \* download_link
                    IF equal[p] THEN UNCHANGED <<pool, cache, link, copies, err>>
                    ELSE IF ~link[p] /\ cache[p] # 0
                         THEN /\ err' = [err EXCEPT ![p] = "data-exists"] /\ UNCHANGED <<pool, cache, link, copies>>
                         ELSE /\ link' = [link EXCEPT ![p] = TRUE] /\ UNCHANGED <<pool, cache, copies, err>>
          /\ pc' = [pc EXCEPT ![p] = "acted"]
          /\ UNCHANGED <<tries, holder, equal>>

\* the copy itself raises (disk error): nothing is written, the finally clause still unlocks
ActFails(p) == /\ pc[p] = "compared" /\ p \in MayFail /\ ~equal[p] /\ OpOf[p] \in {"upload", "download", "upload_link"}
               /\ err' = [err EXCEPT ![p] = "io"] /\ pc' = [pc EXCEPT ![p] = "acted"]
               /\ UNCHANGED <<tries, holder, pool, cache, link, equal, copies>>

Unlock(p) == /\ pc[p] = "acted" /\ holder = p
             /\ holder' = None /\ pc' = [pc EXCEPT ![p] = IF err[p] = None THEN "done" ELSE "raised"]
             /\ UNCHANGED <<tries, pool, cache, link, equal, copies, err>>

\* SIGKILL at any point: the kernel drops the lock of the dead process
Crash(p) == /\ p \in MayCrash /\ pc[p] \in {"start", "sleep", "locked", "compared", "acted"}
            /\ pc' = [pc EXCEPT ![p] = "crashed"] /\ holder' = IF holder = p THEN None ELSE holder
            /\ UNCHANGED <<tries, pool, cache, link, equal, copies, err>>

Next == \E p \in Procs : RefuseLink(p) \/ TryLockOK(p) \/ TryLockBusy(p) \/ Wake(p) \/ GiveUp(p) \/ Compare(p) \/ Act(p)
                         \/ ActFails(p) \/ Unlock(p) \/ Crash(p)
Spec == Init /\ [][Next]_vars

\* ---- scenarios: states every replay campaign must reach (TLC finds a shortest behaviour to each by refuting its negation;
\*      the behaviours are then replayed with real processes)
InCSx(p) == pc[p] \in {"locked", "compared", "acted"}
\* hand-over with a late arrival: a first holder is through, a process that waited for it is inside its critical section, and a
\* third process arriving only now has made its first attempt
ScenarioLateArrival == \E a, b, c \in Procs : /\ a # b /\ b # c /\ a # c
                                                /\ pc[a] \in {"done", "raised"} /\ tries[a] = 1
                                                /\ InCSx(b) /\ tries[b] >= 2
                                                /\ tries[c] = 1 /\ pc[c] = "sleep"
\* the holder was killed inside its critical section and another process got the lock afterwards
ScenarioCrashRelease == \E a, b \in Procs : a # b /\ pc[a] = "crashed" /\ tries[a] = 1 /\ InCSx(b) /\ tries[b] >= 2
\* the copy of the holder failed and another process got the lock afterwards
ScenarioFailRelease == \E a, b \in Procs : a # b /\ err[a] = "io" /\ pc[a] = "raised" /\ InCSx(b) /\ tries[b] >= 2
\* a waiter gave up while the holder is still inside
ScenarioTimeout == \E a, b \in Procs : a # b /\ InCSx(a) /\ err[b] = "timeout"
NoLateArrival == ~ScenarioLateArrival
NoCrashRelease == ~ScenarioCrashRelease
NoFailRelease == ~ScenarioFailRelease
NoTimeoutScenario == ~ScenarioTimeout

\* ---- properties
InCS(p) == pc[p] \in {"locked", "compared", "acted"}
MutualExclusion == \A p, q \in Procs : InCS(p) /\ InCS(q) => p = q
LockedInCS == \A p \in Procs : InCS(p) => holder = p
Released == \A p \in Procs : pc[p] \in {"done", "raised", "crashed", "start", "sleep"} => holder # p
\* waiting longer than the timeout raises and performs no copy
TimeoutRaises == \A p \in Procs : err[p] = "timeout" => /\ pc[p] = "raised" /\ tries[p] = Timeout
                                                        /\ \A k \in 1..Len(copies) : copies[k].p # p
\* every copy wrote exactly what its source held; a copy is only made when the two differed
CopyExact == [][Len(copies') > Len(copies) =>
                  LET c == copies'[Len(copies')] IN
                     /\ c.content # 0
                     /\ (c.to = "pool" => pool' = c.content /\ Content(c.p) = c.content /\ cache' = cache)
                     /\ (c.to = "cache" => cache'[c.p] = c.content /\ pool' = pool /\ pool = c.content)
                     /\ ~equal[c.p]]_vars
\* link mode never replaces real data by a link and never uploads a link
LinkSafe == [][\A p \in Procs : (link'[p] /\ ~link[p]) => cache[p] = 0]_vars
NoLinkUploaded == \A k \in 1..Len(copies) : OpOf[copies[k].p] = "upload_link" => ~link[copies[k].p]
=============================================================================
