----------------------------- MODULE GraphParse -----------------------------
(* C06 / C07 / C09 - what a correctly parsed dependency graph is.

   The module validates recorded parses of the real parser.  A recorded parse consists of the
   parse events (new node, descend: child gets a parent for an object, bridge, clone) and the
   final snapshot of the real graph (both edge maps as the objects hold them, bridging lists,
   whether bridged nodes share their registers, parameters of every node).  The events are
   replayed one by one - each is an action of this spec - with the structural invariants
   checked after every event; when the log of one graph is consumed the whole-graph
   properties are evaluated: well-formedness (C06), equality with the dependencies derived by
   an independent resolver (C07), equivalence and linking of the per-worker copies and
   agreement of lazy and eager parsing (C09).

   Failed checks are collected in TLC register 1 as <<property, graph, detail>>. *)
EXTENDS Naturals, Sequences, FiniteSets, TLC, Json, IOUtils

Graphs == JsonDeserialize(IOEnv.TRACE_FILE)
RECURSIVE SeqToSet(_)
SeqToSet(q) == IF q = <<>> THEN {} ELSE {Head(q)} \cup SeqToSet(Tail(q))
Rootish == {"root", "0root", "boot", "0boot"}

VARIABLES gi,     \* index of the graph being validated
          ei,     \* index of the next event
          N,      \* node ids created so far
          E,      \* dependency edges so far: <<child, parent, object>>
          B       \* bridges so far: <<a, b>>
vars == <<gi, ei, N, E, B>>
G == Graphs[gi]
Ev == G.events[ei]
Note(ok, prop, detail) == IF ok THEN TRUE ELSE TLCSet(1, TLCGet(1) \cup {<<prop, gi, detail>>})

Init == gi = 1 /\ ei = 1 /\ N = {} /\ E = {} /\ B = {} /\ TLCSet(1, {})

Step(a) == gi <= Len(Graphs) /\ ei <= Len(G.events) /\ Ev.a = a /\ ei' = ei + 1 /\ gi' = gi
NewNode == /\ Step("new")
           /\ Note(Ev.x \notin N, "C06", <<"node-created-twice", Ev.x>>)
           /\ N' = N \cup {Ev.x} /\ UNCHANGED <<E, B>>
Descend == /\ Step("descend")
           /\ Note(Ev.x # Ev.y, "C06", <<"reflexive-dependency", Ev.x>>)
           /\ E' = E \cup {<<Ev.x, Ev.y, Ev.o>>} /\ UNCHANGED <<N, B>>
Bridge == /\ Step("bridge")
          /\ Note(Ev.x # Ev.y, "C09", <<"bridged-with-itself", Ev.x>>)
          /\ B' = B \cup {<<Ev.x, Ev.y>>, <<Ev.y, Ev.x>>} /\ UNCHANGED <<N, E>>
Clone == /\ Step("clone") /\ UNCHANGED <<N, E, B>>

\* ---- whole-graph checks on the final snapshot
Nodes == G.nodes                                   \* sequence of node records
Ids == {Nodes[k].id : k \in 1..Len(Nodes)}
NodeOf(i) == Nodes[CHOOSE k \in 1..Len(Nodes) : Nodes[k].id = i]
SetupE == {<<G.setup[k][1], G.setup[k][2], G.setup[k][3]>> : k \in 1..Len(G.setup)}       \* as the children hold them
CleanupE == {<<G.cleanup[k][1], G.cleanup[k][2], G.cleanup[k][3]>> : k \in 1..Len(G.cleanup)} \* as the parents hold them
Parents(i) == {e[2] : e \in {x \in SetupE : x[1] = i}}
Children(i) == {e[1] : e \in {x \in SetupE : x[2] = i}}
RECURSIVE Reach(_, _)
Reach(front, seen) == IF front = {} THEN seen
                      ELSE LET nxt == (UNION {Children(i) : i \in front}) \ (seen \cup front) IN Reach(nxt, seen \cup front)
RECURSIVE Ancestors(_, _)
Ancestors(front, seen) == IF front = {} THEN seen
                          ELSE LET nxt == (UNION {Parents(i) : i \in front}) \ seen IN Ancestors(nxt, seen \cup nxt)
Roots == {i \in Ids : NodeOf(i).root}
Composite == {i \in Ids : ~NodeOf(i).flat}
Pairs(q) == {<<q[k][1], q[k][2]>> : k \in 1..Len(q)}

WellFormed ==
  /\ Note(Cardinality(Ids) = Len(Nodes), "C06", <<"duplicate-node-identity">>)
  /\ Note(Cardinality({Nodes[k].name : k \in {j \in 1..Len(Nodes) : ~Nodes[j].flat}}) = Cardinality(Composite), "C06", <<"two-nodes-with-the-same-name">>)
  /\ Note(SetupE = CleanupE, "C06", <<"dependency-not-recorded-on-both-ends", (SetupE \ CleanupE) \cup (CleanupE \ SetupE)>>)
  /\ Note(SetupE = E, "C06", <<"edges-differ-from-the-parse-events", (SetupE \ E) \cup (E \ SetupE)>>)
  /\ Note(Cardinality(Roots) = 1, "C06", <<"not-exactly-one-starting-node", Roots>>)
  /\ Note(\A i \in Ids : i \notin Ancestors({i}, {}), "C06", <<"cycle", {i \in Ids : i \in Ancestors({i}, {})}>>)
  /\ Note(Roots = {} \/ Reach(Roots, {}) = Ids, "C06", <<"unreachable-nodes", Ids \ Reach(Roots, {})>>)
  \* exactly one producing parent, for the same worker and object, per required state
  /\ \A i \in Composite : \A k \in 1..Len(NodeOf(i).gets) :
        LET g == NodeOf(i).gets[k]
            prod == {p \in Parents(i) : <<i, p, g[1]>> \in SetupE /\ <<g[1], g[2]>> \in Pairs(NodeOf(p).sets)}
        IN Note(g[2] \in Rootish \/ <<g[1]>> \in {<<x>> : x \in SeqToSet(NodeOf(i).perm)} \/
                (Cardinality(prod) = 1 /\ \A p \in prod : NodeOf(p).nets = NodeOf(i).nets),
                "C06", <<"producer-not-unique", i, g, prod>>)
  \* every dependency edge is justified by a required state (or leads to the object's creation / the shared root)
  /\ \A e \in SetupE : Note(NodeOf(e[2]).root \/ NodeOf(e[2]).flat \/ NodeOf(e[1]).flat \/
                            \E k \in 1..Len(NodeOf(e[1]).gets) : NodeOf(e[1]).gets[k][1] = e[3] /\
                                 (<<e[3], NodeOf(e[1]).gets[k][2]>> \in Pairs(NodeOf(e[2]).sets)
                                  \* an unspecified / root state is provided by the object's creation node only (the source of clones
                                  \* keeps its unresolved dependency and is never run)
                                  \/ (NodeOf(e[1]).gets[k][2] \in Rootish /\ (NodeOf(e[2]).objroot \/ NodeOf(e[1]).clonesrc))),
                            "C06", <<"dependency-without-required-state", e>>)
  \* one network object, exactly the vms the parameters name
  /\ \A i \in Composite : /\ Note(NodeOf(i).netobjs = 1 /\ Len(NodeOf(i).nets) = 1, "C06", <<"not-exactly-one-net", i>>)
                          /\ Note(SeqToSet(NodeOf(i).pvms) = SeqToSet(NodeOf(i).avms), "C06", <<"vms-differ-from-parameters", i>>)
  \* sources of clones are never runnable
  /\ \A i \in Ids : Note(~NodeOf(i).clonesrc \/ ~NodeOf(i).runnable, "C06", <<"clone-source-runnable", i>>)

\* C07: dependencies are exactly those declared (class level, per worker), as derived by the independent resolver
ClassEdges(w) == {<<NodeOf(e[1]).cls, NodeOf(e[2]).cls, e[3]>> :
                    e \in {x \in SetupE : ~NodeOf(x[1]).flat /\ ~NodeOf(x[2]).flat /\ ~NodeOf(x[2]).root /\ NodeOf(x[1]).nets = <<w>>
                                        /\ ~NodeOf(x[1]).clonesrc}}   \* clone sources only stand for their clones
Expected == {<<G.expected[k][1], G.expected[k][2], G.expected[k][3]>> : k \in 1..Len(G.expected)}
AsDeclared == \A w \in SeqToSet(G.workers) :
                 Note(~G.hasexpected \/ w \in SeqToSet(G.excluded) \/ ClassEdges(w) = Expected, "C07",
                      <<"edges-differ-from-declared", w, ClassEdges(w) \ Expected, Expected \ ClassEdges(w)>>)
\* no dependency duplicated per worker: one node per class and worker
OncePerWorker == \A i, j \in Composite : Note(i = j \/ NodeOf(i).cls # NodeOf(j).cls \/ NodeOf(i).nets # NodeOf(j).nets, "C07",
                                              <<"class-duplicated-for-a-worker", NodeOf(i).cls, NodeOf(i).nets>>)

\* C09: equivalent, linked copies
BridgedS == Pairs(G.bridged)
Classes(w) == {NodeOf(i).cls : i \in {j \in Composite : NodeOf(j).nets = <<w>>}}
Linked ==
  /\ Note(\A p \in BridgedS : <<p[2], p[1]>> \in BridgedS, "C09", <<"bridging-not-symmetric">>)
  /\ Note(BridgedS = B \/ ~G.eventscomplete, "C09", <<"bridges-differ-from-the-parse-events">>)
  /\ \A p \in BridgedS : Note(NodeOf(p[1]).cls = NodeOf(p[2]).cls /\ NodeOf(p[1]).nets # NodeOf(p[2]).nets, "C09", <<"bridged-nodes-not-equivalent", p>>)
  \* all equivalent nodes of different workers are linked and share their visit bookkeeping
  /\ \A i, j \in Composite : Note(i = j \/ NodeOf(i).cls # NodeOf(j).cls \/ <<i, j>> \in BridgedS, "C09", <<"equivalent-nodes-not-bridged", i, j>>)
  /\ Note(\A k \in 1..Len(G.sharedregs) : G.sharedregs[k][3], "C09", <<"registers-not-shared">>)
  \* per-worker subgraphs are equal up to worker naming (workers excluded by restrictions aside)
  /\ \A w, v \in SeqToSet(G.workers) \ SeqToSet(G.excluded) :
        Note(G.lazy \/ (Classes(w) = Classes(v) /\ ClassEdges(w) = ClassEdges(v)), "C09", <<"worker-copies-differ", w, v>>)
\* lazy expansion / a second parse yields the reference graph (class level, per worker)
\* a second parse yields the reference graph; every test a worker expanded lazily has exactly its reference dependencies
RefEdges(w) == {<<G.reference[k][2], G.reference[k][3], G.reference[k][4]>> : k \in {j \in 1..Len(G.reference) : G.reference[j][1] = w}}
SameAsReference ==
     /\ \A w \in SeqToSet(G.workers) :
           Note(~G.hasreference \/
                IF G.lazy THEN \A c \in Classes(w) : {e \in ClassEdges(w) : e[1] = c} = {e \in RefEdges(w) : e[1] = c}
                          ELSE ClassEdges(w) = RefEdges(w),
                "C09", <<"differs-from-reference-parse", w>>)
     /\ Note(G.unexpanded = <<>>, "C09", <<"selected-tests-never-expanded", G.unexpanded>>)

Finish == /\ gi <= Len(Graphs) /\ ei = Len(G.events) + 1
          /\ WellFormed /\ AsDeclared /\ OncePerWorker /\ Linked /\ SameAsReference
          /\ gi' = gi + 1 /\ ei' = 1 /\ N' = {} /\ E' = {} /\ B' = {}

Next == NewNode \/ Descend \/ Bridge \/ Clone \/ Finish
Spec == Init /\ [][Next]_vars
Total == LET f[k \in 0..Len(Graphs)] == IF k = 0 THEN 0 ELSE f[k - 1] + Len(Graphs[k].events) + 1 IN f[Len(Graphs)]
Accepted == /\ PrintT(<<"MONITOR-FAILURES", TLCGet(1)>>)
            /\ PrintT(<<"CONSUMED", TLCGet("stats").diameter - 1, Total>>)
            /\ TLCGet("stats").diameter - 1 = Total
=============================================================================
