---------------------------- MODULE VMStates ----------------------------
(* C17 - vm-level state listing combined from per-image listings.

   Each image carries, for every state name, one of: "none" (no snapshot of that name),
   "off" (snapshot with a recorded vm-state size of 0 B - taken from a stopped image) or
   "on" (snapshot with a non-zero vm-state size - taken from a running vm).  For memory-file
   based vm states (ramfile backend) the vm additionally has a set `mem` of memory files and
   the images carry "off" snapshots.

   The module specifies (a) the definition - a vm state exists iff EVERY image (and the memory
   file) carries it - and (b) the listing algorithm as the implementation performs it: images
   are listed one after the other and the running result is narrowed by each listing
   (QCOW2VTBackend.show, RamfileBackend._show).  TLC checks that (b) computes (a) for every
   configuration; every terminal state is replayed on the real backends. *)
EXTENDS Naturals, FiniteSets, Sequences

CONSTANTS Names,      \* state names
          MaxImages,  \* 1..MaxImages images per vm
          Mode,       \* "vt" (internal on-snapshots) or "ram" (memory files + off image snapshots)
          Algo        \* "narrow" = the algorithm as the implementation performs it;
                      \* "legacy" = the algorithm of the pinned commit before the fix (kept so that TLC
                      \*            demonstrates the defect: an empty running result is re-initialised)

Kinds == {"none", "off", "on"}
ImgKinds == IF Mode = "vt" THEN Kinds ELSE {"none", "off"}
Wanted == IF Mode = "vt" THEN "on" ELSE "off"

VARIABLES n,     \* number of images of the vm
          img,   \* img[i][s] \in Kinds for i \in 1..n
          mem,   \* memory files (ram mode only)
          k,     \* images listed so far
          acc,   \* running result of the listing algorithm
          pc
vars == <<n, img, mem, k, acc, pc>>

\* ---- (a) the definition
ImageShow(i, kind) == {s \in Names : img[i][s] = kind}
VMShowDef == {s \in Names : (\A i \in 1..n : img[i][s] = Wanted) /\ (Mode = "ram" => s \in mem)}

\* ---- (b) the algorithm
Init == /\ n \in 1..MaxImages
        /\ img \in [1..MaxImages -> [Names -> ImgKinds]]
        /\ \A i \in (n+1)..MaxImages : \A s \in Names : img[i][s] = "none"   \* unused slots are canonical
        /\ mem \in (IF Mode = "ram" THEN SUBSET Names ELSE {{}})
        /\ k = 0 /\ acc = {} /\ pc = "listing"

\* list the next image and narrow the result; the first listing initialises it
ListImage == /\ pc = "listing" /\ k < n
             /\ acc' = IF (Algo = "narrow" /\ k = 0) \/ (Algo = "legacy" /\ acc = {})
                       THEN ImageShow(k + 1, Wanted) ELSE acc \cap ImageShow(k + 1, Wanted)
             /\ k' = k + 1
             /\ UNCHANGED <<n, img, mem, pc>>

\* ram mode: keep the memory files that are complete vm states
Finish == /\ pc = "listing" /\ k = n
          /\ acc' = IF Mode = "ram" THEN acc \cap mem ELSE acc
          /\ pc' = "done"
          /\ UNCHANGED <<n, img, mem, k>>

Next == ListImage \/ Finish
Spec == Init /\ [][Next]_vars

TypeOK == n \in 1..MaxImages /\ k \in 0..n /\ acc \subseteq Names /\ pc \in {"listing", "done"}
\* the property: the algorithm's result is the definition
ResultIsDefinition == pc = "done" => acc = VMShowDef
\* the running result never grows after the first listing (narrowing only)
Narrowing == [][k > 0 => acc' \subseteq acc]_vars
\* on and off snapshots of one image are disjoint listings
OnOffDisjoint == \A i \in 1..n : ImageShow(i, "on") \cap ImageShow(i, "off") = {}
=============================================================================
